// Kani harnesses for the assumed contracts of /repo/src/pptt.rs (child module of pptt).
use super::*;

/// D14 (@default CacheNodeBuilder): derived Default is all-zero
#[kani::proof]
fn default_cache_node_builder() {
    let r = CacheNodeBuilder::default();
    assert!(r.next_level == 0 && r.size == 0 && r.set_count == 0 && r.associativity == 0 && r.attributes == 0
        && r.line_size == 0 && r.id == 0 && r.flags == 0);
}
