"""Replay a violation file against the real crate."""
import json
import os
import sys
sys.path.insert(0, os.path.dirname(os.path.abspath(__file__)))
import falsify


def run(path, repo):
    d = json.load(open(path))
    print('obligation:', d.get('obligation'))
    fi = d.get('failing_input') or {}
    if d.get('backend') == 'verus' and fi.get('found'):
        res = falsify.run_tests(repo, [fi['witness']])
        ok, out = res[fi['witness']]
        print(out)
        if ok is False:
            print('REPLAY: witness %s fails on the real crate -> violation reproduced' % fi['witness'])
            return 1
        print('REPLAY: witness passes (violation not reproduced on this tree)')
        return 0
    if d.get('backend') == 'kani' and fi:
        print('kani counterexample (concrete playback values):')
        print(json.dumps(fi, indent=1))
        return 1
    print('no failing input recorded; verifier output follows')
    for v in d.get('verifier_output', []) if isinstance(d.get('verifier_output'), list) else [d.get('verifier_output')]:
        print(v)
    return 1
