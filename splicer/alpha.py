"""D27: alpha-renaming of body-local variables back to the names the proof script was written for.

The hints of a contract (`@hint`, loop invariants) mention locals of the function body by name.  When
the current body differs from the recorded baseline body (contracts/baseline.json: the text of /repo
at the commit the contracts were written against) *only* by a consistent, bijective renaming of
identifiers that are bound by `let` / `let mut` / `for` inside the body, the two bodies are
alpha-equivalent; the renaming is undone before the hints are woven in, so what is verified is,
token for token, the baseline body.  Anything else (a renamed field, function, constant, parameter,
a changed token count) leaves the body untouched and the ordinary lost-anchor handling applies."""
import re

from rustscan import code_mask

KEYWORDS = set('''as break const continue crate else enum extern false fn for if impl in let loop match mod move mut pub ref
return self Self static struct super trait true type unsafe use where while async await dyn'''.split())

TOK = re.compile(r'''r\#[A-Za-z_][A-Za-z0-9_]*|[A-Za-z_][A-Za-z0-9_]*|\d[A-Za-z0-9_]*(?:\.\d[A-Za-z0-9_]*)?|"[ \n]*"|'[ ]+'|'[A-Za-z_][A-Za-z0-9_]*|::|->|=>|==|!=|<=|>=|&&|\|\||<<|>>|\+=|-=|\*=|/=|\|=|&=|\^=|\.\.=|\.\.|\S''')


def toks(body):
    mask = code_mask(body)
    out = []
    for m in TOK.finditer(mask):
        t = body[m.start():m.end()]
        kind = 'id' if re.match(r'(r#)?[A-Za-z_]', t) and not t.startswith("'") else 'other'
        out.append((t, m.start(), m.end(), kind))
    return out


def alpha_restore(body, base):
    """Returns (body', {new: old}) -- body' is `body` with locals renamed back, or (body, None)."""
    if base is None or body == base:
        return body, None
    tb, tn = toks(base), toks(body)
    if len(tb) != len(tn):
        return body, None
    fwd, back = {}, {}
    same_ids = set()
    for i, (a, b) in enumerate(zip(tb, tn)):
        if a[0] == b[0]:
            if a[3] == 'id':
                same_ids.add(a[0])
            continue
        if a[3] != 'id' or b[3] != 'id' or a[0] in KEYWORDS or b[0] in KEYWORDS:
            return body, None
        prev = tn[i - 1][0] if i else ''
        nxt = tn[i + 1][0] if i + 1 < len(tn) else ''
        if prev in ('.', '::') or nxt in ('(', '!', '::'):
            return body, None          # a field, method, path segment, call or macro: not a local
        if fwd.setdefault(b[0], a[0]) != a[0] or back.setdefault(a[0], b[0]) != b[0]:
            return body, None          # not a consistent bijection
    if not fwd:
        return body, None              # only layout differs
    if same_ids & (set(fwd) | set(back)):
        return body, None              # a name is renamed in one place and kept in another
    # every renamed name must be introduced by a binder of this body
    for new in fwd:
        first = next(i for i, t in enumerate(tn) if t[0] == new)
        p1 = tn[first - 1][0] if first >= 1 else ''
        p2 = tn[first - 2][0] if first >= 2 else ''
        if not (p1 in ('let', 'for') or (p1 == 'mut' and p2 == 'let')):
            return body, None
    out = body
    for (t, s, e, k) in reversed(tn):
        if k == 'id' and t in fwd:
            out = out[:s] + fwd[t] + out[e:]
    return out, fwd
