"""Replay a violation file against the real crate."""
import json
import os
import sys
sys.path.insert(0, os.path.dirname(os.path.abspath(__file__)))
import falsify


def run(path, repo):
    d = json.load(open(path))
    print('obligation:', d.get('obligation'))
    fi = d.get('failing_input') or {}
    if d.get('backend', '').startswith('verus') and fi.get('found'):
        res = falsify.run_tests(repo, [fi['witness']])
        ok, out = res[fi['witness']]
        print(out)
        if ok is False:
            print('REPLAY: witness %s fails on the real crate -> violation reproduced' % fi['witness'])
            return 1
        print('REPLAY: witness passes (violation not reproduced on this tree)')
        return 0
    if d.get('backend') == 'kani' and fi:
        print('kani counterexample (concrete playback values):')
        print(json.dumps(fi.get('values'), indent=1))
        h = d.get('harness')
        if h and fi.get('playback_test'):
            import kani_stage
            ok, out = replay_kani(repo, h, fi['playback_test'])
            print(out[-3000:])
            if ok:
                print('REPLAY: the counterexample fails harness %s on the real crate -> violation reproduced' % h['name'])
                return 1
            if ok is False:
                print('REPLAY: the harness passes on these values (violation not reproduced on this tree)')
                return 0
            print('REPLAY: could not run the playback test')
        return 1
    print('no failing input recorded; verifier output follows')
    for v in d.get('verifier_output', []) if isinstance(d.get('verifier_output'), list) else [d.get('verifier_output')]:
        print(v)
    return 1


def replay_kani(repo, h, playback_test):
    """native re-execution of a Kani counterexample (see kani_stage.replay_counterexample)"""
    import shutil
    import subprocess
    import tempfile
    import kani_stage
    build = None
    tmp = None
    try:
        if h.get('kmod') == 'verif_kani_layouts':
            tmp = tempfile.mkdtemp(prefix='verif-replay-splice-')
            subprocess.run([sys.executable, os.path.join(falsify.VERIF, 'splicer', 'splice.py'), '--repo', repo, '--out', tmp],
                           stdout=subprocess.DEVNULL, stderr=subprocess.DEVNULL)
            build = tmp
        ok, out = kani_stage.replay_counterexample(repo, build, h, playback_test)
        if ok and h.get('mode') == 'refusal':
            ok = ('VERIF-RETURNED' in out) or ('overflow' in out)
        return ok, out
    finally:
        if tmp:
            shutil.rmtree(tmp, ignore_errors=True)
