// Kani harnesses for the assumed contracts of /repo/src/hest.rs (child module of hest).
use super::*;

/// D14 (@default GenericErrorData): derived Default = zero fields, severity None, no sections
#[kani::proof]
fn default_generic_error_data() {
    let r = GenericErrorData::default();
    assert!(r.section_type == 0 && r.severity as u32 == 3 && r.revision == 0 && r.validation == 0 && r.flags == 0 && r.error_data_length == 0);
    assert!(r.fru_id == [0u8; 16] && r.fru_text == [0u8; 20] && r.timestamp == [0u8; 8]);
    assert!(r.data.is_empty());
}
