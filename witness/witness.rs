// witness scenarios (public API only)
