// Kani harnesses for the leaf contracts ("seams") that the Verus crate assumes for
// /repo/src/aml.rs.  Included into a scratch copy of the real crate as a child module of
// `aml` (so private items are reachable).  Every predicate here is the plain-Rust
// transcription of the Verus spec function of the same name in contracts/prelude.rs.
extern crate alloc;
use super::*;
use alloc::vec::Vec;

// ---- PkgLength (C07, C18): transcription of pkg_width / pkg_enc / pkg_incl / pkg_decode / pkg_wf
fn pkg_width(len: u64) -> u64 {
    if len + 1 < 64 { 1 } else if len + 2 < 4096 { 2 } else if len + 3 < 1048576 { 3 } else { 4 }
}
fn pkg_enc(total: u64, w: u64) -> Vec<u8> {
    let mut v = Vec::new();
    if w == 1 {
        v.push(total as u8);
    } else {
        v.push((((w - 1) << 6) + total % 16) as u8);
        v.push(((total / 16) % 256) as u8);
        if w >= 3 { v.push(((total / 4096) % 256) as u8); }
        if w >= 4 { v.push(((total / 1048576) % 256) as u8); }
    }
    v
}
fn pkg_decode(r: &[u8]) -> u64 {
    let mut v = if r.len() == 1 { (r[0] % 64) as u64 } else { (r[0] % 16) as u64 };
    if r.len() >= 2 { v += (r[1] as u64) * 16; }
    if r.len() >= 3 { v += (r[2] as u64) * 4096; }
    if r.len() >= 4 { v += (r[3] as u64) * 1048576; }
    v
}
fn pkg_wf(r: &[u8]) -> bool {
    r.len() >= 1 && r.len() <= 4
        && (r.len() != 1 || r[0] < 64)
        && (r.len() == 1 || ((r[0] / 64) as usize == r.len() - 1 && (r[0] / 16) % 4 == 0))
}

/// seam create_pkg_length, inclusive form: r == pkg_incl(len) for every len that can be encoded
#[kani::proof]
#[kani::unwind(6)]
fn pkg_length_inclusive() {
    let len: usize = kani::any();
    kani::assume(len < 0x1000_0000 - 4);
    let r = create_pkg_length(len, true);
    let w = pkg_width(len as u64);
    let expect = pkg_enc(len as u64 + w, w);
    assert!(r == expect);
    // and the specification's own reading of the bytes (independent of pkg_enc)
    assert!(pkg_wf(&r));
    assert!(pkg_decode(&r) == len as u64 + r.len() as u64);
}

/// seam create_pkg_length, exclusive form (field widths): well-formed and decodes to len
#[kani::proof]
#[kani::unwind(6)]
fn pkg_length_exclusive() {
    let len: usize = kani::any();
    kani::assume((len as u64) < 0x1000_0000);
    let r = create_pkg_length(len, false);
    assert!(pkg_wf(&r));
    assert!(pkg_decode(&r) == len as u64);
}

/// C18 (refusal harness): a length whose encoded value needs more than 28 bits is refused by an
/// explicit panic -- the call never returns.  Domain: len <= isize::MAX (lengths of in-memory
/// buffers).
#[kani::proof]
#[kani::unwind(6)]
fn pkg_length_refuses_oversize() {
    let len: usize = kani::any();
    let inc: bool = kani::any();
    kani::assume(len <= isize::MAX as usize);
    kani::assume(if inc { len >= 0x1000_0000 - 4 } else { len >= 0x1000_0000 });
    let _r = create_pkg_length(len, inc);
    assert!(false, "VERIF-RETURNED: out-of-range input was not refused");
}

// ---- hex2byte (C16): transcription of hex_ok / hex_val
fn hex_ok(c: char) -> bool {
    ('0' <= c && c <= '9') || ('a' <= c && c <= 'f') || ('A' <= c && c <= 'F')
}
fn hex_val(c: char) -> u32 {
    if '0' <= c && c <= '9' { c as u32 - 48 } else if 'a' <= c && c <= 'f' { c as u32 - 87 } else { c as u32 - 55 }
}

/// seam hex2byte: returns only for two hex digits, with the specified value ...
#[kani::proof]
fn hex2byte_contract() {
    let a: char = kani::any();
    let b: char = kani::any();
    kani::assume(hex_ok(a) && hex_ok(b));
    let r = hex2byte(a, b);
    assert!(r as u32 == hex_val(a) * 16 + hex_val(b));
}
/// refusal harness: anything else is refused
#[kani::proof]
fn hex2byte_refuses_non_hex() {
    let a: char = kani::any();
    let b: char = kani::any();
    kani::assume(!(hex_ok(a) && hex_ok(b)));
    let _r = hex2byte(a, b);
    assert!(false, "VERIF-RETURNED: out-of-range input was not refused");
}

// ---- EISA id (C16): ACPI 19.3.4 -- decompress(stored value) == id, for all valid ids
fn eisa_decompress(v: u32) -> [u8; 7] {
    let s = v.swap_bytes();
    let hexd = |n: u32| -> u8 { if n < 10 { b'0' + n as u8 } else { b'A' + (n as u8 - 10) } };
    [
        0x40 + ((s >> 26) & 0x1f) as u8,
        0x40 + ((s >> 21) & 0x1f) as u8,
        0x40 + ((s >> 16) & 0x1f) as u8,
        hexd((s >> 12) & 0xf),
        hexd((s >> 8) & 0xf),
        hexd((s >> 4) & 0xf),
        hexd(s & 0xf),
    ]
}
fn any_eisa_id() -> [u8; 7] {
    let id: [u8; 7] = kani::any();
    kani::assume(id[0] >= b'A' && id[0] <= b'Z');
    kani::assume(id[1] >= b'A' && id[1] <= b'Z');
    kani::assume(id[2] >= b'A' && id[2] <= b'Z');
    let mut i = 3;
    while i < 7 {
        kani::assume((id[i] >= b'0' && id[i] <= b'9') || (id[i] >= b'A' && id[i] <= b'F'));
        i += 1;
    }
    id
}
#[kani::proof]
#[kani::unwind(9)]
fn eisa_name_round_trip() {
    let id = any_eisa_id();
    let s = core::str::from_utf8(&id).unwrap();
    let e = EISAName::new(s);
    assert!(eisa_decompress(e.value) == id);
}

/// refusal harness: a 7-byte ASCII string with a non-hex character in the product id, or a
/// character below '@' in the vendor id, is refused
#[kani::proof]
#[kani::unwind(9)]
fn eisa_name_refuses_bad_digit() {
    let id: [u8; 7] = kani::any();
    let mut i = 0;
    while i < 7 {
        kani::assume(id[i] < 128);
        i += 1;
    }
    let mut bad = id[0] < 0x40 || id[1] < 0x40 || id[2] < 0x40;
    let mut j = 3;
    while j < 7 {
        let c = id[j];
        if !((c >= b'0' && c <= b'9') || (c >= b'A' && c <= b'F') || (c >= b'a' && c <= b'f')) {
            bad = true;
        }
        j += 1;
    }
    kani::assume(bad);
    let s = core::str::from_utf8(&id).unwrap();
    let _e = EISAName::new(s);
    assert!(false, "VERIF-RETURNED: out-of-range input was not refused");
}

/// refusal harness: a string whose length is not 7 is refused, whatever its characters -- BOUNDED:
/// ASCII strings of 0..=9 bytes (a longer id with a valid 7-character prefix must not be truncated)
#[kani::proof]
#[kani::unwind(11)]
fn eisa_name_refuses_wrong_length() {
    let raw: [u8; 9] = kani::any();
    let n: usize = kani::any();
    kani::assume(n <= 9 && n != 7);
    let mut i = 0;
    while i < 9 {
        kani::assume(raw[i] < 128);
        i += 1;
    }
    // SAFETY: ASCII bytes are valid UTF-8
    let s = unsafe { core::str::from_utf8_unchecked(&raw[..n]) };
    let _e = EISAName::new(s);
    assert!(false, "VERIF-RETURNED: an id of the wrong length was not refused");
}
