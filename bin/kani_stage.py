"""Kani stage: prove the leaf contracts (seams) assumed by the Verus crate on the *real*
compiled crate.  A scratch copy of /repo gets one line per module
    #[cfg(kani)] #[path = "/verif/kani/<m>.rs"] mod verif_kani;
appended to src/<m>.rs (child modules see private items); nothing else differs."""
import json
import os
import re
import shutil
import subprocess
import tempfile
import time

VERIF = os.path.dirname(os.path.dirname(os.path.abspath(__file__)))


def load_registry(tier):
    reg = json.load(open(os.path.join(VERIF, 'kani', 'registry.json')))['harnesses']
    return [h for h in reg if tier == 'thorough' or h.get('tier', 'quick') == 'quick']


PRIMW = {'u8': 1, 'u16': 2, 'u32': 4, 'u64': 8, 'U16': 2, 'U32': 4, 'U64': 8}


def gen_layout_harnesses(build, tmp):
    """Generate one Kani harness per #[repr(C, packed)] struct whose raw() image the splicer derived
    from the field order (map.json: packed): size, as_bytes() == memory, and every field at the
    offset the field order implies.  Returns (registry entries, {module: file})."""
    mp = json.load(open(os.path.join(build, 'map.json')))
    packed = mp.get('packed', [])
    enums = {e['name']: e for e in mp.get('enums', [])}
    sizes = {}

    def width(mod, t):
        if t in PRIMW:
            return PRIMW[t]
        m = re.match(r'\[u8;\s*(\d+)\]$', t)
        if m:
            return int(m.group(1))
        base = t.split('::')[-1]
        for p in packed:
            if p['name'] == base:
                ws = [width(p['module'], ft) for (_, ft) in p['fields']]
                return None if any(w is None for w in ws) else sum(ws)
        if base in enums:
            return enums[base]['width']
        return None

    def enum_constraints(t, o):
        """assumptions making the bytes at offset o a valid value of type t (enums inside nested structs too)"""
        base = t.split('::')[-1]
        if base in enums and enums[base]['width'] == 1:
            return ['    kani::assume(%s);' % ' || '.join('b[%d] == %d' % (o, v) for v in enums[base]['values'])]
        out = []
        for p in packed:
            if p['name'] == base:
                oo = o
                for (_, ft) in p['fields']:
                    out += enum_constraints(ft, oo)
                    oo += width(p['module'], ft)
        return out
    files, reg = {}, []
    spec_offs = {}
    sp = os.path.join(VERIF, 'kani', 'spec_offsets.json')
    if os.path.exists(sp):
        spec_offs = json.load(open(sp))
    for p in packed:
        ws = [width(p['module'], ft) for (_, ft) in p['fields']]
        if any(w is None for w in ws):
            continue   # contains an enum or foreign type: needs a hand-written harness
        n = sum(ws)
        lines = ['#[kani::proof]', '#[kani::unwind(%d)]' % (n + 2), 'fn layout_auto_%s() {' % p['name'],
                 '    let b: [u8; %d] = kani::any();' % n]
        o = 0
        for (fname, ft), w in zip(p['fields'], ws):
            lines += enum_constraints(ft, o)
            o += w
        lines += ['    assert!(core::mem::size_of::<%s>() == %d);' % (p['name'], n),
                 '    let t: %s = unsafe { core::mem::transmute::<[u8; %d], %s>(b) };' % (p['name'], n, p['name']),
                 '    assert!(zerocopy::IntoBytes::as_bytes(&t) == &b[..]);']
        o = 0
        for (fname, ft), w in zip(p['fields'], ws):
            if ft == 'u8':
                lines.append('    assert!({ t.%s } == b[%d]);' % (fname, o))
            elif ft in ('u16', 'u32', 'u64'):
                lines.append('    assert!({ t.%s } == %s::from_le_bytes([%s]));' % (fname, ft, ', '.join('b[%d]' % (o + i) for i in range(w))))
            elif ft in ('U16', 'U32', 'U64'):
                lines.append('    assert!({ t.%s }.get() == %s::from_le_bytes([%s]));' % (fname, ft.lower(), ', '.join('b[%d]' % (o + i) for i in range(w))))
            elif ft.startswith('['):
                lines.append('    assert!({ t.%s } == [%s]);' % (fname, ', '.join('b[%d]' % (o + i) for i in range(w))))
            elif ft.split('::')[-1] in enums:
                lines.append('    assert!({ t.%s } as u8 == b[%d]);' % (fname, o))
            else:
                lines.append('    assert!(zerocopy::IntoBytes::as_bytes(&{ t.%s }) == &b[%d..%d]);' % (fname, o, o + w))
            o += w
        # the specification's offsets (kani/spec_offsets.json) against the offsets implied by the field order
        so = spec_offs.get(p['name'])
        if so:
            implied = {}
            oo = 0
            for (fname, ft), w in zip(p['fields'], ws):
                implied[fname] = oo
                oo += w
            implied['__size'] = oo
            for k, v in so.items():
                if implied.get(k) != v:
                    lines.append('    assert!(false, "VERIF-SPEC-OFFSET %s.%s: field order implies offset %s, the specification says %d");' % (p['name'], k, implied.get(k), v))
        if p.get('default_zero'):
            lines.append('    let z = <%s as Default>::default();' % p['name'])
            lines.append('    assert!(zerocopy::IntoBytes::as_bytes(&z) == &[0u8; %d][..]);' % n)
        lines.append('}')
        files.setdefault(p['module'], []).append('\n'.join(lines))
        reg.append(dict(name='layout_auto_%s' % p['name'], module=p['module'], tags=['C04', 'C14', 'C02', 'C03', 'C01'], complete=True,
                        seam='%s::%s::as_bytes (repr(C, packed) field order, %d bytes)' % (p['module'], p['name'], n), kmod='verif_kani_layouts'))
    paths = {}
    for mod, hs in files.items():
        fp = os.path.join(tmp, 'layouts_%s.rs' % mod)
        with open(fp, 'w') as f:
            f.write('// GENERATED by bin/kani_stage.py from the packed-struct field orders\n#![allow(unused_imports, non_snake_case)]\nuse super::*;\n\n' + '\n\n'.join(hs) + '\n')
        paths[mod] = fp
    return reg, paths


def prepare(repo, tmp, modules, layout_files=None):
    dst = os.path.join(tmp, 'crate')
    shutil.copytree(repo, dst, ignore=shutil.ignore_patterns('target', '.git', 'rust-vmm-ci'))
    for m in modules:
        hp = os.path.join(VERIF, 'kani', m + '.rs')
        sp = os.path.join(dst, 'src', m + '.rs')
        if not os.path.exists(sp):
            continue
        with open(sp, 'a') as f:
            if os.path.exists(hp):
                f.write('\n#[cfg(kani)]\n#[path = "%s"]\nmod verif_kani;\n' % hp)
            if layout_files and m in layout_files:
                f.write('\n#[cfg(kani)]\n#[path = "%s"]\nmod verif_kani_layouts;\n' % layout_files[m])
    os.makedirs(os.path.join(dst, '.cargo'), exist_ok=True)
    with open(os.path.join(dst, '.cargo', 'config.toml'), 'w') as f:
        f.write('[net]\noffline = true\n')
    return dst


def run_one(dst, env, h, playback=False, timeout=600):
    cmd = ['cargo', 'kani', '--harness', ('' if h['module'] == 'lib' else h['module'] + '::') + h.get('kmod', 'verif_kani') + '::' + h['name'], '--output-format', 'terse']
    if playback:
        cmd += ['-Z', 'concrete-playback', '--concrete-playback=print']
    t0 = time.time()
    import signal
    pr = subprocess.Popen(cmd, cwd=dst, env=env, stdout=subprocess.PIPE, stderr=subprocess.STDOUT, text=True, start_new_session=True)
    try:
        out, _ = pr.communicate(timeout=timeout)
    except subprocess.TimeoutExpired:
        # kill the whole group: cbmc / kissat children would otherwise keep running
        try:
            os.killpg(pr.pid, signal.SIGKILL)
        except ProcessLookupError:
            pass
        try:
            out, _ = pr.communicate(timeout=10)
        except Exception:
            out = ''
        return dict(status='timeout', output='[no verdict within %d s]\n' % timeout + (out or '')[-1500:], seconds=time.time() - t0)
    dt = time.time() - t0
    if h.get('mode') == 'refusal':
        # refusal harness: the call under test must never return.  Pass iff the only failed
        # checks are explicit panics of the code under test: not the VERIF-RETURNED marker, and not
        # an overflow trap (absent in release builds, so it does not count as a refusal).
        if 'VERIFICATION:- SUCCESSFUL' in out:
            st = 'error'   # vacuous: nothing panicked and the marker was unreachable
            out += '\n[refusal harness vacuous: no input reached the call]'
        elif 'VERIFICATION:- FAILED' in out:
            # every failed check with its location.  The harness's own `assert!(false, "VERIF-RETURNED ..")`
            # is recognised by *where* it is (Kani replaces formatted panic messages by a placeholder, so
            # the text cannot be relied on): a failed check located in the harness module means the call
            # under test returned.
            checks = re.findall(r'Failed Checks: ([^\n]*)\n\s*File: "([^"]*)", line (\d+), in ([^\n]*)', out)
            bare = re.findall(r'Failed Checks: ([^\n]*)', out)
            bad = [c for c in checks if 'verif_kani' in c[3] or '/kani/' in c[1] or 'VERIF-RETURNED' in c[0]
                   or 'overflow' in c[0] or 'out of bounds' in c[0] or 'divi' in c[0]]
            if len(checks) != len(bare):
                st = 'error'     # output format not understood: never guess
                out += '\n[refusal harness: could not locate every failed check]'
            else:
                st = 'failed' if bad else 'ok'
        else:
            st = 'error'
    elif 'VERIFICATION:- SUCCESSFUL' in out:
        st = 'ok'
    elif 'VERIFICATION:- FAILED' in out:
        st = 'failed'
    else:
        st = 'error'
    return dict(status=st, output=out[-4000:], seconds=round(dt, 1))


def harness_key(h, repo, layout_files):
    """A harness result depends on the module it lives in, lib.rs and gas.rs (types every module may
    embed), Cargo.toml/lock, the harness source and this script: cache by their content."""
    import hashlib
    hh = hashlib.sha256()
    files = [os.path.join(repo, 'src', h['module'] + '.rs'), os.path.join(repo, 'src', 'lib.rs'), os.path.join(repo, 'src', 'gas.rs'),
             os.path.join(repo, 'Cargo.toml'), os.path.join(repo, 'Cargo.lock'), os.path.abspath(__file__),
             os.path.join(VERIF, 'kani', h['module'] + '.rs'), os.path.join(VERIF, 'kani', 'spec_offsets.json')]
    if h.get('kmod') == 'verif_kani_layouts' and layout_files.get(h['module']):
        files.append(layout_files[h['module']])
    for f in files:
        if os.path.exists(f):
            hh.update(open(f, 'rb').read())
    hh.update(json.dumps({k: h.get(k) for k in ('name', 'module', 'mode', 'kmod')}, sort_keys=True).encode())
    return hh.hexdigest()[:24]


def run(build, tier, repo):
    t0 = time.time()
    reg = load_registry(tier)
    if not reg:
        return dict(status='absent', harnesses=[], cmd='(no kani harnesses registered)')
    tmp = tempfile.mkdtemp(prefix='verif-kani-')
    res = []
    try:
        lreg, lfiles = gen_layout_harnesses(build, tmp) if os.path.exists(os.path.join(build, 'map.json')) else ([], {})
        reg = reg + lreg
        modules = sorted(set(h['module'] for h in reg))
        cache_dir = os.path.join(VERIF, 'build', 'kani-cache')
        os.makedirs(cache_dir, exist_ok=True)
        results, todo = {}, []
        for h in reg:
            h['_key'] = harness_key(h, repo, lfiles)
            cp = os.path.join(cache_dir, h['_key'] + '.json')
            if os.path.exists(cp) and not os.environ.get('VERIF_NO_KANI_CACHE'):
                r = json.load(open(cp))
                r['cached'] = True
                results[(h['module'], h['name'])] = r
            else:
                todo.append(h)
        if todo:
            dst = prepare(repo, tmp, modules, lfiles)
            env = dict(os.environ, CARGO_NET_OFFLINE='true', CARGO_TARGET_DIR=os.path.join(tmp, 'target'))
            # build once (sequential) so that the parallel runs below only do the per-harness work
            results[(todo[0]['module'], todo[0]['name'])] = run_one(dst, env, todo[0])
            from concurrent.futures import ThreadPoolExecutor
            with ThreadPoolExecutor(max_workers=12) as ex:
                futs = {(h['module'], h['name']): ex.submit(run_one, dst, env, h) for h in todo[1:]}
                for n, f in futs.items():
                    results[n] = f.result()
            for h in todo:
                r = results[(h['module'], h['name'])]
                if r['status'] == 'failed':
                    pb = run_one(dst, env, h, playback=True)
                    r['counterexample'] = parse_playback(pb.get('output', ''))
                if r['status'] in ('ok', 'failed'):
                    json.dump(r, open(os.path.join(cache_dir, h['_key'] + '.json'), 'w'))
        for h in reg:
            r = results[(h['module'], h['name'])]
            entry = dict(h)
            entry.update(status=r['status'], seconds=r.get('seconds'))
            entry.pop('_key', None)
            entry['cached'] = bool(r.get('cached'))
            if r['status'] == 'failed':
                entry['output'] = r['output'][-2500:]
                entry['counterexample'] = r.get('counterexample')
            elif r['status'] != 'ok':
                entry['output'] = r.get('output', '')[-2500:]
            res.append(entry)
    finally:
        shutil.rmtree(tmp, ignore_errors=True)
    ver = subprocess.run(['cargo', 'kani', '--version'], stdout=subprocess.PIPE, stderr=subprocess.STDOUT, text=True).stdout.strip().splitlines()
    return dict(status='ok', harnesses=res, wall_s=round(time.time() - t0, 1), version=ver[-1] if ver else None,
                cmd='cargo kani --harness verif_kani::<h> --output-format terse (scratch copy of /repo + #[cfg(kani)] #[path] mod verif_kani per module)')


def parse_playback(out):
    """Extract the concrete values Kani prints for each kani::any() of a failing harness."""
    m = re.search(r'Concrete playback unit test for `[^`]*`:\s*```(.*?)```', out, re.S)
    if not m:
        failed = re.findall(r'Failed Checks:[^\n]*', out)
        return dict(note='no concrete playback produced', failed_checks=failed[:5]) if failed else None
    body = m.group(1)
    vals = []
    for vm in re.finditer(r'//\s*(.+?)\n\s*vec!\[([^\]]*)\]', body):
        vals.append(dict(value=vm.group(1).strip(), bytes=vm.group(2).strip()))
    return dict(playback_test=body.strip()[:3000], values=vals, failed_checks=re.findall(r'Failed Checks:[^\n]*', out)[:5])


def replay_counterexample(repo, build, h, playback_test, timeout=900):
    """Re-execute a Kani counterexample against the real crate: the concrete-playback unit test Kani
    printed is appended to the harness module of a scratch copy of `repo` and run natively with
    `cargo kani playback` (no model checking involved: the harness body runs as ordinary compiled
    Rust with kani::any() returning the recorded bytes).  Returns (reproduced: bool|None, output)."""
    m = re.search(r'fn (kani_concrete_playback_\w+)\s*\(', playback_test or '')
    if not m:
        return None, 'no concrete playback test recorded'
    tname = m.group(1)
    tmp = tempfile.mkdtemp(prefix='verif-kani-replay-')
    try:
        lfiles = {}
        kmod = h.get('kmod', 'verif_kani')
        if kmod == 'verif_kani_layouts':
            _, lfiles = gen_layout_harnesses(build, tmp)
            hsrc = lfiles.get(h['module'])
        else:
            hsrc = os.path.join(VERIF, 'kani', h['module'] + '.rs')
        if not hsrc or not os.path.exists(hsrc):
            return None, 'harness source not found'
        dst = os.path.join(tmp, 'crate')
        shutil.copytree(repo, dst, ignore=shutil.ignore_patterns('target', '.git', 'rust-vmm-ci'))
        hcopy = os.path.join(tmp, 'harness_%s.rs' % h['module'])
        body = re.sub(r'^\s*///[^\n]*\n', '', playback_test, flags=re.M)
        open(hcopy, 'w').write(open(hsrc).read() + '\n' + body + '\n')
        with open(os.path.join(dst, 'src', h['module'] + '.rs'), 'a') as f:
            f.write('\n#[cfg(kani)]\n#[path = "%s"]\nmod %s;\n' % (hcopy, kmod))
        os.makedirs(os.path.join(dst, '.cargo'), exist_ok=True)
        open(os.path.join(dst, '.cargo', 'config.toml'), 'w').write('[net]\noffline = true\n')
        env = dict(os.environ, CARGO_NET_OFFLINE='true', CARGO_TARGET_DIR=os.path.join(tmp, 'target'))
        r = subprocess.run(['cargo', 'kani', 'playback', '-Z', 'concrete-playback', '--', tname], cwd=dst, env=env,
                           stdout=subprocess.PIPE, stderr=subprocess.STDOUT, text=True, timeout=timeout)
        out = r.stdout[-4000:]
        ran = re.search(r'running 1 test', r.stdout) is not None
        if not ran:
            return None, out
        return (r.returncode != 0), out
    finally:
        shutil.rmtree(tmp, ignore_errors=True)
