"""Minimal Rust item scanner used by the splicer.

Not a parser: it blanks comments, tracks string/char literals and bracket depth, and
cuts a source file into items (use/struct/enum/impl/trait/fn/const/type/macro).  Function
items are split into attributes, signature and body.  Everything is kept as source text
so that bodies can be re-emitted token-for-token.
"""
import re


class ScanError(Exception):
    pass


def blank_comments(src):
    """Return src with // and /* */ comments replaced by spaces (newlines kept).
    String and char literals are left intact."""
    out = []
    i, n = 0, len(src)
    while i < n:
        c = src[i]
        if c == '/' and i + 1 < n and src[i + 1] == '/':
            j = src.find('\n', i)
            if j < 0:
                j = n
            out.append(' ' * (j - i))
            i = j
        elif c == '/' and i + 1 < n and src[i + 1] == '*':
            depth, j = 1, i + 2
            while j < n and depth:
                if src.startswith('/*', j):
                    depth += 1
                    j += 2
                elif src.startswith('*/', j):
                    depth -= 1
                    j += 2
                else:
                    j += 1
            out.append(''.join(ch if ch == '\n' else ' ' for ch in src[i:j]))
            i = j
        elif c == '"' or (c in 'br' and re.match(r'b?r?#*"', src[i:i + 6]) and (i == 0 or not (src[i - 1].isalnum() or src[i - 1] == '_'))):
            j = lit_end(src, i)
            out.append(src[i:j])
            i = j
        elif c == "'":
            j = char_end(src, i)
            out.append(src[i:j])
            i = j
        else:
            out.append(c)
            i += 1
    return ''.join(out)


def lit_end(src, i):
    """i at start of a string literal (possibly b / r / br prefixed); return index after it."""
    m = re.match(r'b?(r?)(#*)"', src[i:])
    if not m:
        raise ScanError('bad string literal at %d' % i)
    raw, hashes = m.group(1), m.group(2)
    j = i + m.end()
    if raw:
        close = '"' + hashes
        k = src.find(close, j)
        if k < 0:
            raise ScanError('unterminated raw string')
        return k + len(close)
    while j < len(src):
        if src[j] == '\\':
            j += 2
        elif src[j] == '"':
            return j + 1
        else:
            j += 1
    raise ScanError('unterminated string')


def char_end(src, i):
    """i at a single quote: a char literal or a lifetime.  Return index after it."""
    if src[i + 1] == '\\':
        j = src.find("'", i + 3 if src[i + 2] == "'" else i + 2)
        return j + 1
    if i + 2 < len(src) and src[i + 2] == "'":
        return i + 3
    m = re.match(r"'[A-Za-z_][A-Za-z0-9_]*", src[i:])
    if m:
        return i + m.end()
    raise ScanError('bad quote at %d: %r' % (i, src[i:i + 10]))


def code_mask(src):
    """Same length as src; string and char literal *contents* replaced by spaces so that
    brackets inside literals are invisible.  src must already be comment-free."""
    out = []
    i, n = 0, len(src)
    while i < n:
        c = src[i]
        if c == '"' or (c in 'br' and re.match(r'b?r?#*"', src[i:i + 6]) and (i == 0 or not (src[i - 1].isalnum() or src[i - 1] == '_'))):
            j = lit_end(src, i)
            out.append('"' + ''.join('\n' if ch == '\n' else ' ' for ch in src[i + 1:j - 1]) + '"')
            i = j
        elif c == "'":
            j = char_end(src, i)
            if src[j - 1] == "'" and j - i >= 3:
                out.append("'" + ' ' * (j - i - 2) + "'")
            else:
                out.append(src[i:j])
            i = j
        else:
            out.append(c)
            i += 1
    return ''.join(out)


OPEN = {'(': ')', '[': ']', '{': '}'}
CLOSE = {')': '(', ']': '[', '}': '{'}


def match_close(mask, i):
    """mask[i] is an opening bracket; return index of the matching closer."""
    depth = 0
    for j in range(i, len(mask)):
        c = mask[j]
        if c in OPEN:
            depth += 1
        elif c in CLOSE:
            depth -= 1
            if depth == 0:
                return j
    raise ScanError('unbalanced bracket at %d' % i)


def find_top(mask, i, chars, end=None, angle=False):
    """First index >= i of any char in `chars` at bracket depth 0 (angle brackets counted
    when angle=True)."""
    depth = 0
    adepth = 0
    end = len(mask) if end is None else end
    j = i
    while j < end:
        c = mask[j]
        if depth == 0 and adepth == 0 and c in chars:
            return j
        if c in OPEN:
            depth += 1
        elif c in CLOSE:
            depth -= 1
        elif angle and c == '<':
            adepth += 1
        elif angle and c == '>' and mask[j - 1] != '-' and adepth > 0:
            adepth -= 1
        j += 1
    return -1


def split_top(text, sep=',', angle=True):
    """Split text at top-level separators (bracket and angle aware)."""
    mask = code_mask(text)
    parts, start = [], 0
    i = 0
    while True:
        j = find_top(mask, i, sep, angle=angle)
        if j < 0:
            break
        parts.append(text[start:j])
        start = i = j + 1
    parts.append(text[start:])
    return parts


class Item:
    def __init__(self, kind, src, start, end, line):
        self.kind = kind          # use extern mod struct enum impl trait fn const static type macro_def macro_call
        self.text = src[start:end]
        self.start, self.end, self.line = start, end, line
        self.attrs = []           # attribute texts
        self.name = None
        self.head = None          # text before the body '{' (fn signature, impl header ...)
        self.body = None          # text of the body including braces
        self.body_off = None      # offset of body within the file
        self.children = []        # for impl / trait / mod
        self.vis = ''


ITEM_KW = r'(?:pub(?:\s*\([^)]*\))?\s+)?(?:(?:const|async|unsafe|extern\s+"[^"]*")\s+)*'


def scan_items(src, mask, start, end):
    """Scan items in src[start:end] (a module or impl body *interior*)."""
    items = []
    i = start
    while True:
        while i < end and mask[i].isspace():
            i += 1
        if i >= end:
            break
        item_start = i
        line = src.count('\n', 0, i) + 1
        attrs = []
        while mask[i] == '#':
            j = i + 1
            if mask[j] == '!':
                j += 1
            if mask[j] != '[':
                raise ScanError('bad attribute at line %d' % line)
            k = match_close(mask, j)
            attrs.append(src[i:k + 1])
            i = k + 1
            while i < end and mask[i].isspace():
                i += 1
        if i >= end:
            break
        rest = mask[i:end]
        m = re.match(r'(pub(?:\s*\([^)]*\))?\s+)?', rest)
        vis = m.group(1) or ''
        p = i + m.end()
        rest = mask[p:end]
        kwm = re.match(r'(macro_rules\s*!|use\b|extern\s+crate\b|mod\b|struct\b|enum\b|union\b|impl\b|trait\b|type\b|static\b|(?:const\s+)?(?:unsafe\s+)?fn\b|const\b|[A-Za-z_][A-Za-z0-9_:]*\s*!)', rest)
        if not kwm:
            raise ScanError('unrecognised item at line %d: %r' % (line, src[i:i + 60]))
        kw = kwm.group(1)
        if kw.startswith('macro_rules'):
            kind = 'macro_def'
        elif kw.endswith('!'):
            kind = 'macro_call'
        elif kw.endswith('fn'):
            kind = 'fn'
        elif kw.startswith('extern'):
            kind = 'extern'
        else:
            kind = kw
        if kind in ('use', 'extern', 'const', 'static', 'type'):
            j = find_top(mask, p, ';', end)
            item_end = j + 1
            body_at = None
        elif kind == 'macro_call':
            j = p + kwm.end()
            while mask[j].isspace():
                j += 1
            k = match_close(mask, j)
            item_end = k + 1
            q = item_end
            while q < end and mask[q].isspace():
                q += 1
            if q < end and mask[q] == ';':
                item_end = q + 1
            body_at = j
        elif kind == 'struct':
            j = find_top(mask, p, ';{', end)
            if mask[j] == ';':
                item_end, body_at = j + 1, None
            else:
                k = match_close(mask, j)
                item_end, body_at = k + 1, j
        elif kind == 'mod':
            j = find_top(mask, p, ';{', end)
            if mask[j] == ';':
                item_end, body_at = j + 1, None
            else:
                k = match_close(mask, j)
                item_end, body_at = k + 1, j
        elif kind == 'fn':
            j = find_top(mask, p, ';{', end)
            if mask[j] == ';':
                item_end, body_at = j + 1, None
            else:
                k = match_close(mask, j)
                item_end, body_at = k + 1, j
        else:  # enum union impl trait macro_def
            j = find_top(mask, p, '{', end)
            k = match_close(mask, j)
            item_end, body_at = k + 1, j
        it = Item(kind, src, item_start, item_end, line)
        it.attrs = attrs
        it.vis = vis
        it.decl_off = i
        if body_at is not None:
            it.head = src[i:body_at]
            it.body = src[body_at:item_end] if kind != 'macro_call' else src[body_at:match_close(mask, body_at) + 1]
            it.body_off = body_at
        else:
            it.head = src[i:item_end]
        nm = re.match(r'\s*(?:<[^>]*>\s*)?([A-Za-z_][A-Za-z0-9_]*)', mask[p + kwm.end():end])
        if kind == 'macro_call':
            it.name = re.sub(r'\s*!$', '', kw).strip()
        elif kind in ('impl',):
            it.name = impl_key(src[p + kwm.end():body_at])
        elif nm:
            it.name = nm.group(1)
        if kind in ('impl', 'trait') or (kind == 'mod' and body_at is not None):
            it.children = scan_items(src, mask, body_at + 1, item_end - 1)
        items.append(it)
        i = item_end
    return items


def impl_key(header):
    """Normalise the text between `impl` and `{` into a stable key:
    `<'a> Package<'a>` -> `Package`; `Aml for AddressSpace<u16>` -> `Aml for AddressSpace<u16>`;
    `<T: Default> AddressSpace<T>` -> `AddressSpace`."""
    h = ' '.join(header.split())
    generics = []
    if h.startswith('<'):
        depth = 0
        for j, c in enumerate(h):
            if c == '<':
                depth += 1
            elif c == '>':
                depth -= 1
                if depth == 0:
                    gtext = h[1:j]
                    h = h[j + 1:].strip()
                    for g in split_top(gtext):
                        g = g.strip().split(':')[0].strip()
                        generics.append(g)
                    break
    h = re.sub(r'\bwhere\b.*$', '', h).strip()

    def strip_args(m):
        args = [a.strip() for a in split_top(m.group(1))]
        keep = [a for a in args if not a.startswith("'") and a not in generics]
        return '<' + ', '.join(keep) + '>' if keep else ''
    prev = None
    while prev != h:
        prev = h
        h = re.sub(r'<([^<>]*)>', strip_args, h)
    return h


class FnSig:
    pass


def parse_fn(item):
    """Split a fn item's head into pieces: prefix (vis + qualifiers), name, generics,
    params text, return type, where clause."""
    head = item.head
    mask = code_mask(head)
    m = re.search(r'\bfn\s+([A-Za-z_][A-Za-z0-9_]*)', mask)
    sig = FnSig()
    sig.prefix = head[:m.start()]
    sig.name = m.group(1)
    p = m.end()
    while mask[p].isspace():
        p += 1
    sig.generics = ''
    if mask[p] == '<':
        depth = 0
        q = p
        while True:
            if mask[q] == '<':
                depth += 1
            elif mask[q] == '>' and mask[q - 1] != '-':
                depth -= 1
                if depth == 0:
                    break
            q += 1
        sig.generics = head[p:q + 1]
        p = q + 1
        while mask[p].isspace():
            p += 1
    if mask[p] != '(':
        raise ScanError('fn %s: expected ( in %r' % (sig.name, head))
    q = match_close(mask, p)
    sig.params = head[p + 1:q]
    rest = head[q + 1:]
    rmask = mask[q + 1:]
    sig.ret = None
    sig.where = ''
    wm = re.search(r'\bwhere\b', rmask)
    if wm:
        sig.where = rest[wm.start():].strip()
        rest = rest[:wm.start()]
    rm = re.match(r'\s*->\s*(.*\S)\s*$', rest, re.S)
    if rm:
        sig.ret = rm.group(1)
    return sig


def parse_file(path):
    raw = open(path).read()
    src = blank_comments(raw)
    mask = code_mask(src)
    items = scan_items(src, mask, 0, len(src))
    return src, mask, items
