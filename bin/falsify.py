"""Falsifier stage (DESIGN.md section 6): after a Verus obligation has failed, run the
witness scenarios declared for it against the *real* crate to attach a failing input.
Witnesses never make a check pass; they only turn `no-failing-input-found` into a
concrete input.  Witness scenarios live in /verif/witness/witness.rs (#[test] fns over the
public API, each an executable oracle of the property) and are selected by
/verif/witness/index.json: {"<property>": {"<fn-key-regex>": ["test_name", ...]}}."""
import json
import os
import re
import shutil
import subprocess
import tempfile

VERIF = os.path.dirname(os.path.dirname(os.path.abspath(__file__)))


def candidates(pid, oid):
    p = os.path.join(VERIF, 'witness', 'index.json')
    if not os.path.exists(p):
        return []
    idx = json.load(open(p))
    out = []
    for rx, tests in idx.get(pid, {}).items():
        if re.search(rx, oid):
            out.extend(tests)
    return out


CACHE = None      # path of a JSON file {test: [verdict, output]} for the current tree (set by bin/check)


def run_tests(repo, tests, keep_output=True):
    """Copy the repo to a scratch dir, add the witness file as an integration test, run the
    named tests.  Returns {test: (passed, output)}.  Verdicts are cached per tree (CACHE)."""
    res = {}
    if not tests:
        return res
    cached = {}
    if CACHE and os.path.exists(CACHE):
        try:
            cached = json.load(open(CACHE))
        except Exception:
            cached = {}
    todo = [t for t in tests if t not in cached]
    if todo:
        fresh = _run_tests(repo, todo)
        for t, (v, o) in fresh.items():
            if v is not None:
                cached[t] = [v, o]
            res[t] = (v, o)
        if CACHE:
            try:
                json.dump(cached, open(CACHE, 'w'))
            except Exception:
                pass
    for t in tests:
        if t in cached:
            res[t] = (cached[t][0], cached[t][1])
    return res


def _run_tests(repo, tests):
    res = {}
    tmp = tempfile.mkdtemp(prefix='verif-wit-')
    try:
        dst = os.path.join(tmp, 'crate')
        shutil.copytree(repo, dst, ignore=shutil.ignore_patterns('target', '.git', 'rust-vmm-ci'))
        os.makedirs(os.path.join(dst, 'tests'), exist_ok=True)
        shutil.copy(os.path.join(VERIF, 'witness', 'witness.rs'), os.path.join(dst, 'tests', 'witness.rs'))
        env = dict(os.environ, CARGO_NET_OFFLINE='true', CARGO_TARGET_DIR=os.path.join(tmp, 'target'))
        b = subprocess.run(['cargo', 'test', '--offline', '--test', 'witness', '--no-run'], cwd=dst, env=env,
                           stdout=subprocess.PIPE, stderr=subprocess.STDOUT, text=True)
        if b.returncode != 0:
            return {t: (None, 'witness build failed: ' + b.stdout[-1500:]) for t in tests}
        for t in tests:
            # C18 is about release builds too: those witnesses run in both profiles
            profiles = [[], ['--release']] if t.startswith('c18_') else [[]]
            verdict, outs = True, []
            for prof in profiles:
                r = subprocess.run(['cargo', 'test', '--offline'] + prof + ['--test', 'witness', '--', '--exact', t, '--nocapture'],
                                   cwd=dst, env=env, stdout=subprocess.PIPE, stderr=subprocess.STDOUT, text=True, timeout=900)
                ran = re.search(r'running 1 test', r.stdout) is not None
                pm = re.search(r"thread '[^']*'[^\n]*panicked at[^\n]*\n[^\n]*(\n[^\n]*)?", r.stdout)
                outs.append('[profile %s]\n' % (prof or ['debug'])[0] + ((pm.group(0) + '\n...\n') if pm else '') + r.stdout[-1200:])
                if not ran:
                    verdict = None
                    break
                if r.returncode != 0:
                    verdict = False
                    break
            res[t] = (verdict, '\n'.join(outs))
    finally:
        shutil.rmtree(tmp, ignore_errors=True)
    return res


def find(pid, oid, failures, repo, build):
    tests = candidates(pid, oid)
    if not tests:
        return dict(found=False, tried=[])
    res = run_tests(repo, tests)
    for t, (ok, out) in res.items():
        if ok is False:
            return dict(found=True, witness=t, output=out, tried=tests,
                        how='cargo test --test witness -- --exact %s (witness/witness.rs copied to tests/ of a scratch copy of /repo)' % t)
    return dict(found=False, tried=tests)
