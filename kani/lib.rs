// Kani harnesses for the seams of /repo/src/lib.rs (child module of the crate root).
extern crate alloc;
use super::*;
use alloc::vec::Vec;

fn sum(d: &[u8]) -> u32 {
    let mut s = 0u32;
    let mut i = 0;
    while i < d.len() {
        s += d[i] as u32;
        i += 1;
    }
    s
}

/// seam generate_checksum: (sum(data) + r) % 256 == 0 -- BOUNDED: len <= 24
#[kani::proof]
#[kani::unwind(26)]
fn generate_checksum_bounded() {
    let data: [u8; 24] = kani::any();
    let n: usize = kani::any();
    kani::assume(n <= 24);
    let r = generate_checksum(&data[..n]);
    assert!((sum(&data[..n]) + r as u32) % 256 == 0);
}

/// seam TableHeader layout (D2): size 36 and as_bytes() == hdr36(fields)
#[kani::proof]
#[kani::unwind(38)]
fn layout_table_header() {
    assert!(core::mem::size_of::<TableHeader>() == 36);
    assert!(TableHeader::len() == 36);
    let h = TableHeader {
        signature: kani::any(),
        length: U32::new(kani::any()),
        revision: kani::any(),
        checksum: kani::any(),
        oem_id: kani::any(),
        oem_table_id: kani::any(),
        oem_revision: U32::new(kani::any()),
        creator_id: kani::any(),
        creator_revision: kani::any(),
    };
    let mut e: Vec<u8> = Vec::new();
    e.extend_from_slice(&h.signature);
    e.extend_from_slice(&h.length.get().to_le_bytes());
    e.push(h.revision);
    e.push(h.checksum);
    e.extend_from_slice(&h.oem_id);
    e.extend_from_slice(&h.oem_table_id);
    e.extend_from_slice(&h.oem_revision.get().to_le_bytes());
    e.extend_from_slice(&h.creator_id);
    e.extend_from_slice(&h.creator_revision);
    assert!(h.as_bytes() == e.as_slice());
}

/// shims D3/D7: zerocopy U32 get/set/new/from and integer as_bytes()/to_le_bytes() are the
/// little-endian encodings le16/le32/le64 of the prelude
#[kani::proof]
fn zc_and_le_shims() {
    let x: u32 = kani::any();
    let mut u = U32::new(x);
    assert!(u.get() == x);
    let y: u32 = kani::any();
    u.set(y);
    assert!(u.get() == y);
    let f: U32 = y.into();
    assert!(f.get() == y);
    let le32 = [(x & 0xff) as u8, ((x >> 8) & 0xff) as u8, ((x >> 16) & 0xff) as u8, ((x >> 24) & 0xff) as u8];
    assert!(x.to_le_bytes() == le32);
    assert!(x.as_bytes() == &le32[..]);
    assert!(U32::new(x).as_bytes() == &le32[..]);
    let w: u16 = kani::any();
    let le16 = [(w & 0xff) as u8, ((w >> 8) & 0xff) as u8];
    assert!(w.to_le_bytes() == le16);
    assert!(w.as_bytes() == &le16[..]);
    let q: u64 = kani::any();
    let le64 = [(q & 0xff) as u8, ((q >> 8) & 0xff) as u8, ((q >> 16) & 0xff) as u8, ((q >> 24) & 0xff) as u8,
                ((q >> 32) & 0xff) as u8, ((q >> 40) & 0xff) as u8, ((q >> 48) & 0xff) as u8, ((q >> 56) & 0xff) as u8];
    assert!(q.to_le_bytes() == le64);
    assert!(q.as_bytes() == &le64[..]);
}

/// D14 (@default Checksum): derived Default is the zero accumulator
#[kani::proof]
fn default_checksum() {
    let c = Checksum::default();
    assert!(c.value == 0);
}

/// shims D8 (slices): `copy_within`, `[a..b].copy_from_slice`, `[u8; 4]::copy_from_slice` and by-value
/// array iteration behave as the prelude contracts say -- BOUNDED cross-check: slices of 6 bytes, every
/// (from, to, dest) / (from, to, src length).  The `_refuses` harnesses (refusal mode) show that a call
/// outside what the contract's ensures states never returns.
fn cw_valid(from: usize, to: usize, dest: usize) -> bool { from <= to && to <= 6 && dest + (to - from) <= 6 }
#[kani::proof]
#[kani::unwind(8)]
fn shim_copy_within() {
    let a: [u8; 6] = kani::any();
    let (from, to, dest): (usize, usize, usize) = (kani::any(), kani::any(), kani::any());
    kani::assume(from <= 7 && to <= 7 && dest <= 7);
    kani::assume(cw_valid(from, to, dest));
    let mut s = a;
    s.copy_within(from..to, dest);
    let mut i = 0;
    while i < 6 {
        let want = if dest <= i && i < dest + (to - from) { a[i - dest + from] } else { a[i] };
        assert!(s[i] == want);
        i += 1;
    }
}
#[kani::proof]
#[kani::unwind(8)]
fn shim_copy_within_refuses() {
    let mut s: [u8; 6] = kani::any();
    let (from, to, dest): (usize, usize, usize) = (kani::any(), kani::any(), kani::any());
    kani::assume(from <= 7 && to <= 7 && dest <= 7);
    kani::assume(!cw_valid(from, to, dest));
    s.copy_within(from..to, dest);
    assert!(false, "VERIF-RETURNED: copy_within accepted a range the contract excludes");
}
#[kani::proof]
#[kani::unwind(8)]
fn shim_copy_into() {
    let a: [u8; 6] = kani::any();
    let src_full: [u8; 6] = kani::any();
    let (from, to, n): (usize, usize, usize) = (kani::any(), kani::any(), kani::any());
    kani::assume(from <= to && to <= 6 && n == to - from);
    let mut s = a;
    s[from..to].copy_from_slice(&src_full[..n]);
    let mut i = 0;
    while i < 6 {
        let want = if from <= i && i < to { src_full[i - from] } else { a[i] };
        assert!(s[i] == want);
        i += 1;
    }
    let mut d4: [u8; 4] = kani::any();
    d4.copy_from_slice(&src_full[..4]);
    assert!(d4 == [src_full[0], src_full[1], src_full[2], src_full[3]]);
}
#[kani::proof]
#[kani::unwind(8)]
fn shim_copy_into_refuses() {
    let mut s: [u8; 6] = kani::any();
    let src_full: [u8; 6] = kani::any();
    let (from, to, n): (usize, usize, usize) = (kani::any(), kani::any(), kani::any());
    kani::assume(from <= 7 && to <= 7 && n <= 6);
    let which: bool = kani::any();
    if which {
        kani::assume(!(from <= to && to <= 6 && n == to - from));
        s[from..to].copy_from_slice(&src_full[..n]);
    } else {
        kani::assume(n != 4);
        let mut d4: [u8; 4] = kani::any();
        d4.copy_from_slice(&src_full[..n]);
    }
    assert!(false, "VERIF-RETURNED: copy_from_slice accepted lengths the contract excludes");
}
#[kani::proof]
#[kani::unwind(10)]
fn shim_arr_into_vec() {
    let a: [u8; 8] = kani::any();
    let mut got: Vec<u8> = Vec::new();
    for b in a { got.push(b); }                     // by-value iteration yields the elements in order
    assert!(got.len() == 8);
    let mut i = 0;
    while i < 8 { assert!(got[i] == a[i]); i += 1; }
}

/// shims D8 (str): starts_with(char), &s[off..] and len() on ASCII strings behave as the prelude
/// contracts say -- BOUNDED cross-check: strings of at most 4 bytes.  (`split(char).collect()` was tried
/// and is beyond CBMC here: no verdict in 600 s; it stays an assumption.)
#[kani::proof]
#[kani::unwind(7)]
fn shim_str_ops() {
    let raw: [u8; 4] = kani::any();
    let n: usize = kani::any();
    kani::assume(n <= 4);
    let mut k = 0;
    while k < 4 { kani::assume(raw[k] < 128); k += 1; }
    // SAFETY: ASCII bytes are valid UTF-8
    let s: &str = unsafe { core::str::from_utf8_unchecked(&raw[..n]) };
    assert!(s.len() == n);
    assert!(s.starts_with('\\') == (n > 0 && raw[0] == b'\\'));
    let off: usize = kani::any();
    kani::assume(off <= n);
    let t = &s[off..];
    assert!(t.len() == n - off);
    let mut i = 0;
    while i < n - off { assert!(t.as_bytes()[i] == raw[off + i]); i += 1; }
}

/// The contract the prelude assumes for `wrapping_neg` (u8, u16, u32): complete over the full domain.
#[kani::proof]
fn shim_wrapping_neg() {
    let a: u8 = kani::any();
    assert!(a.wrapping_neg() as u32 == (256 - a as u32) % 256);
    assert!(a.wrapping_neg() == 0u8.wrapping_sub(a));
    assert!(a.wrapping_neg() == (255 - a).wrapping_add(1));
    let b: u16 = kani::any();
    assert!(b.wrapping_neg() as u32 == (0x1_0000 - b as u32) % 0x1_0000);
    let c: u32 = kani::any();
    assert!(c.wrapping_neg() as u64 == (0x1_0000_0000u64 - c as u64) % 0x1_0000_0000);
}
