// Witness scenarios for the falsifier stage (DESIGN.md section 6).  Each #[test] is an
// executable oracle of a *property* over the public API at boundary parameters.  They run
// only after a Verus/Kani obligation has failed, to attach a concrete failing input to the
// VIOLATION (or to confirm a known finding); they never make a check pass.
#![allow(dead_code, unused_imports)]
use acpi_tables::aml::*;
use acpi_tables::{Aml, AmlSink};
use std::panic::{catch_unwind, AssertUnwindSafe};
#[allow(unused_imports)]
use zerocopy::IntoBytes as _;

fn ser(a: &dyn Aml) -> Vec<u8> {
    let mut v = Vec::new();
    a.to_aml_bytes(&mut v);
    v
}
fn refuses<F: FnOnce() -> Vec<u8>>(f: F) -> Result<(), Vec<u8>> {
    match catch_unwind(AssertUnwindSafe(f)) {
        Err(_) => Ok(()),
        Ok(b) => Err(b),
    }
}
fn pkg_decode(b: &[u8]) -> (usize, usize) {
    let follow = (b[0] >> 6) as usize;
    if follow == 0 {
        return ((b[0] & 0x3f) as usize, 1);
    }
    let mut v = (b[0] & 0x0f) as usize;
    for i in 0..follow {
        v |= (b[1 + i] as usize) << (4 + 8 * i);
    }
    (v, follow + 1)
}
struct Raw(Vec<u8>);
impl Aml for Raw {
    fn to_aml_bytes(&self, sink: &mut dyn AmlSink) {
        sink.vec(&self.0);
    }
}
fn path_n(n: usize) -> String {
    (0..n).map(|i| format!("S{:03}", i % 1000)).collect::<Vec<_>>().join(".")
}

// ---- C06
#[test]
fn c06_power_resource_opcode() {
    let b = ser(&PowerResource::new("PWR0".into(), 1, 2, vec![]));
    assert_eq!(&b[0..2], &[0x5b, 0x84], "DefPowerRes := ExtOpPrefix(0x5B) 0x84 ...: got {:02x?}", &b[..2]);
    let (len, w) = pkg_decode(&b[2..]);
    assert_eq!(len, b.len() - 2, "PkgLength");
    assert_eq!(&b[2 + w..2 + w + 4], b"PWR0");
    // DefMutex := MutexOp(0x5B 0x01) NameString SyncFlags(ByteData): one raw byte for every sync level
    for level in 0..=15u8 {
        let mut want = vec![0x5b, 0x01];
        want.extend_from_slice(b"MTX0");
        want.push(level);
        let m = Mutex::new("MTX0".into(), level);
        assert_eq!(ser(&m), want, "Mutex with sync level {}", level);
        // ... and the object that follows it in a scope starts right after that byte
        let uid = Name::new("_UID".into(), &7u8);
        let sc = ser(&Scope::new("_SB_".into(), vec![&m, &uid]));
        let tail = ser(&uid);
        assert_eq!(&sc[sc.len() - tail.len()..], &tail[..]);
        assert_eq!(&sc[sc.len() - tail.len() - want.len()..sc.len() - tail.len()], &want[..], "Mutex (level {}) inside a scope", level);
    }
}

// ---- C10
#[test]
fn c10_register_length_field() {
    use acpi_tables::gas::*;
    let b = ser(&Register::new(GAS::new(AddressSpace::SystemMemory, 32, 0, AccessSize::DwordAccess, 0x1000)));
    assert_eq!(b[0], 0x82);
    let declared = u16::from_le_bytes([b[1], b[2]]) as usize;
    assert_eq!(declared, b.len() - 3, "Generic Register Descriptor length field {} but {} payload bytes follow", declared, b.len() - 3);
}

// ---- C18
#[test]
fn c18_path_256_segments_refused() {
    let p = Path::new(&path_n(256));
    let r = refuses(|| ser(&p));
    assert!(r.is_ok(), "256-segment path returned bytes with SegCount {:?}", r.err().map(|b| b[1]));
    // every count above 255 is refused, also those that look small modulo 256; bare, rooted, and as
    // the name of another object
    for n in [257usize, 258, 259, 300, 511, 512, 513, 514, 769, 770] {
        for rooted in [false, true] {
            let s = if rooted { format!("\\{}", path_n(n)) } else { path_n(n) };
            let r = catch_unwind(AssertUnwindSafe(|| ser(&Path::new(&s))));
            if let Ok(b) = r { panic!("{}-segment path (rooted: {}) returned {} bytes starting {:02x?}", n, rooted, b.len(), &b[..4.min(b.len())]); }
            let r = catch_unwind(AssertUnwindSafe(|| ser(&Name::new(Path::new(&s), &1u8))));
            if let Ok(b) = r { panic!("Name with a {}-segment path returned {} bytes", n, b.len()); }
        }
    }
}
#[test]
fn c18_package_256_elements_refused() {
    let one = 1u8;
    let kids: Vec<&dyn Aml> = (0..256).map(|_| &one as &dyn Aml).collect();
    let r = refuses(|| ser(&Package::new(kids)));
    assert!(r.is_ok(), "256-element package returned NumElements {:?}", r.err().map(|b| b[3]));
}
#[test]
fn c18_package_builder_256_elements_refused() {
    let mut pb = PackageBuilder::new();
    for _ in 0..256 {
        pb.add_element(&1u8);
    }
    let r = refuses(|| ser(&pb));
    assert!(r.is_ok(), "256-element PackageBuilder returned bytes");
}
#[test]
fn c18_method_8_args_refused() {
    let r = refuses(|| ser(&Method::new("MTH0".into(), 8, false, vec![])));
    assert!(r.is_ok(), "Method with 8 arguments returned flags {:?}", r.err());
}
#[test]
fn c18_arg_and_local_indices_refused() {
    for i in 0..=255u8 {
        let r = catch_unwind(AssertUnwindSafe(|| ser(&Arg(i))));
        if i <= 6 { assert_eq!(r.ok(), Some(vec![0x68 + i]), "Arg{}", i); } else { assert!(r.is_err(), "Arg({}) returned bytes {:02x?} (Arg6 = 0x6e is the last ArgObj opcode)", i, r.ok()); }
        let r = catch_unwind(AssertUnwindSafe(|| ser(&Local(i))));
        if i <= 7 { assert_eq!(r.ok(), Some(vec![0x60 + i]), "Local{}", i); } else { assert!(r.is_err(), "Local({}) returned bytes {:02x?} (Local7 = 0x67 is the last LocalObj opcode)", i, r.ok()); }
    }
    for n in 0..=255u8 {
        let r = catch_unwind(AssertUnwindSafe(|| ser(&Method::new("MTH0".into(), n, true, vec![]))));
        if n <= 7 { let b = r.expect("a method with at most 7 arguments is encodable"); assert_eq!(b[b.len() - 1], n | 0x08, "method flags for {} args", n); }
        else { assert!(r.is_err(), "Method with {} arguments returned flags", n); }
    }
}
#[test]
fn c18_address_space_overflowing_range_refused() {
    let r = refuses(|| ser(&AddressSpace::<u16>::new_io(0, 0xffff, None)));
    assert!(r.is_ok(), "u16 range 0..=0xffff (size 0x10000) returned bytes {:02x?}", r.err());
    let r = refuses(|| ser(&AddressSpace::<u64>::new_memory(AddressSpaceCacheable::NotCacheable, true, 0, u64::MAX, None)));
    assert!(r.is_ok(), "u64 range 0..=MAX returned bytes");
    let r = refuses(|| ser(&AddressSpace::<u32>::new_memory(AddressSpaceCacheable::NotCacheable, true, 5, 4, None)));
    assert!(r.is_ok(), "min > max returned bytes");
}
#[test]
fn c18_pkg_length_2_pow_28_refused() {
    // content of 2^28 bytes: the inclusive PkgLength (2^28 + 4) does not fit in 28 bits
    let data = vec![0u8; (1usize << 28) - 4];
    let b = BufferData::new(data);
    let r = refuses(|| ser(&b));
    match r {
        Ok(()) => {}
        Err(bytes) => {
            let (len, w) = pkg_decode(&bytes[1..]);
            panic!("object of {} bytes returned with a {}-byte PkgLength that decodes to {}", bytes.len() - 1, w, len);
        }
    }
}

// ---------------------------------------------------------------------------------------
// table helpers
fn le32_at(b: &[u8], o: usize) -> u32 { u32::from_le_bytes([b[o], b[o + 1], b[o + 2], b[o + 3]]) }
fn le16_at(b: &[u8], o: usize) -> u16 { u16::from_le_bytes([b[o], b[o + 1]]) }
fn bsum(b: &[u8]) -> u8 { b.iter().fold(0u8, |a, x| a.wrapping_add(*x)) }
/// C01 + C02 oracle for a table image
fn check_table(name: &str, b: &[u8]) {
    assert_eq!(bsum(b), 0, "{}: image does not sum to 0 (sum {})", name, bsum(b));
    assert_eq!(le32_at(b, 4) as usize, b.len(), "{}: Length field {} but {} bytes emitted", name, le32_at(b, 4), b.len());
}
/// C03 oracle: walk entries with a 1-byte type and 1-byte length (MADT/SRAT/PPTT style)
fn walk_tl8(name: &str, b: &[u8], first: usize, expect_types: &[u8]) {
    let mut o = first;
    let mut seen = Vec::new();
    while o < b.len() {
        assert!(o + 2 <= b.len(), "{}: truncated entry header at {}", name, o);
        let l = b[o + 1] as usize;
        assert!(l >= 2 && o + l <= b.len(), "{}: entry at {} (type {}, length {}) runs past the end of the image ({})", name, o, b[o], l, b.len());
        seen.push(b[o]);
        o += l;
    }
    assert_eq!(o, b.len(), "{}: walk did not land on the end", name);
    assert_eq!(seen, expect_types, "{}: entry types", name);
}

#[test]
fn c03_srat_rintc_affinity_is_self_describing() {
    use acpi_tables::srat::*;
    let mut t = SRAT::new(*b"FOOBAR", *b"DECAFCOF", 1);
    t.add_rintc_affinity(RintcAffinity::new([1, 2, 3, 4], 7).enabled());
    t.add_memory_affinity(MemoryAffinity::new(1, 0x1000, 0x2000).enabled());
    let b = ser(&t);
    check_table("SRAT", &b);
    walk_tl8("SRAT", &b, 48, &[7, 1]);
}

// ---- SLIT (C12 / C01 / C18)
fn slit_cell(b: &[u8], n: usize, i: usize, j: usize) -> u8 { b[44 + i + n * j] }
#[test]
fn c12_slit_diagonal_and_mirrored_assignments() {
    use acpi_tables::slit::*;
    for n in 1..=4usize {
        let mut t = SLIT::new(*b"FOOBAR", *b"DECAFCOF", 1, n as u32);
        let mut model = vec![10u8; n * n];
        let img0 = ser(&t);
        check_table("SLIT(new)", &img0);
        assert_eq!(img0.len(), 44 + n * n, "SLIT::new({}): header + locality count + n*n entries", n);
        assert_eq!(u64::from_le_bytes(img0[36..44].try_into().unwrap()), n as u64, "SLIT::new({}): number of localities", n);
        assert!(img0[44..].iter().all(|x| *x == 10), "SLIT::new({}): every distance starts at 10", n);
        let ops: Vec<(usize, usize, u8)> = (0..n).flat_map(|a| (0..n).map(move |b| (a, b, (20 + 7 * a + 3 * b) as u8))).collect();
        for (a, b, v) in ops.iter().chain(ops.iter().rev()) {
            t.set_distance(*a, *b, *v);
            model[a + n * b] = *v;
            model[b + n * a] = *v;
            let img = ser(&t);
            check_table(&format!("SLIT n={} after set_distance({},{},{})", n, a, b, v), &img);
            assert_eq!(&img[44..], &model[..], "SLIT n={} matrix after set_distance({},{},{})", n, a, b, v);
            assert_eq!(u64::from_le_bytes(img[36..44].try_into().unwrap()), n as u64);
        }
        // large distances written over large distances (old cells totalling 256 and more)
        let big: [u8; 7] = [200, 20, 255, 254, 128, 129, 10];
        let mut k = 0usize;
        for round in 0..3 {
            for a in 0..n { for b in 0..n {
                let v = big[(k + round) % big.len()]; k += 1;
                t.set_distance(a, b, v);
                model[a + n * b] = v;
                model[b + n * a] = v;
                let img = ser(&t);
                check_table(&format!("SLIT n={} after set_distance({},{},{}) over earlier large values", n, a, b, v), &img);
                assert_eq!(&img[44..], &model[..], "SLIT n={} matrix after set_distance({},{},{})", n, a, b, v);
            }}
        }
    }
}
/// C12: a SLIT whose row offsets exceed 16 bits (more than 256 localities)
#[test]
fn c12_slit_large_matrix() {
    use acpi_tables::slit::*;
    let n = 300usize;
    let mut t = SLIT::new(*b"FOOBAR", *b"DECAFCOF", 1, n as u32);
    let mut model = vec![10u8; n * n];
    for (a, b, v) in [(0usize, 299usize, 77u8), (299, 0, 78), (150, 299, 79), (299, 299, 80), (255, 256, 81), (256, 255, 82), (218, 136, 83), (1, 1, 84)] {
        t.set_distance(a, b, v);
        model[a + n * b] = v; model[b + n * a] = v;
        let img = ser(&t);
        check_table(&format!("SLIT n=300 after set_distance({},{},{})", a, b, v), &img);
        assert_eq!(img.len(), 44 + n * n);
        let bad: Vec<usize> = (0..n * n).filter(|k| img[44 + k] != model[*k]).take(4).collect();
        assert!(bad.is_empty(), "SLIT n=300 after set_distance({},{},{}): cells {:?} (row, col = {:?}) differ from the last value assigned", a, b, v, bad, bad.iter().map(|k| (k / n, k % n)).collect::<Vec<_>>());
    }
}
#[test]
fn c18_slit_oversize_locality_count_refused() {
    use acpi_tables::slit::*;
    let r = refuses(|| ser(&SLIT::new(*b"FOOBAR", *b"DECAFCOF", 1, 65536)));
    if let Err(b) = r {
        panic!("SLIT::new(65536 localities) returned a {}-byte image declaring {} localities and Length {}", b.len(), u64::from_le_bytes(b[36..44].try_into().unwrap()), le32_at(&b, 4));
    }
}

// ---- RHCT (C18 / C03 / C05)
#[test]
fn c18_rhct_oversize_nodes_refused() {
    use acpi_tables::rhct::*;
    // ISA string whose node length (8 + n + 1 + pad) exceeds the 16-bit length field
    let s: &'static str = Box::leak("x".repeat(65530).into_boxed_str());
    let r = refuses(|| ser(&IsaStringNode::new(s)));
    if let Err(b) = r {
        panic!("ISA string node of {} bytes returned with length field {}", b.len(), le16_at(&b, 2));
    }
    // hart info node with too many offsets for its 16-bit length field
    let mut t = RHCT::new(*b"FOOBAR", *b"DECAFCOF", 1, 1000);
    let isa = t.add_isa_string("rv64");
    let cmo = t.add_cmo(CmoNode::new(6, 6, 6));
    let mut hi = HartInfoNode::new(0, &isa);
    for _ in 0..16382 {
        hi = hi.with_cmo(&cmo);
    }
    let r = refuses(|| ser(&hi));
    if let Err(b) = r {
        panic!("hart info node of {} bytes returned with length field {}", b.len(), le16_at(&b, 2));
    }
    // at the boundary itself: whatever is returned carries its own size in the Length word; a node of
    // exactly 65536 bytes is not returned
    for n in 65518usize..=65532 {
        let s: &'static str = Box::leak("y".repeat(n).into_boxed_str());
        match refuses(|| ser(&IsaStringNode::new(s))) {
            Ok(()) => {}
            Err(b) => assert_eq!(le16_at(&b, 2) as usize, b.len(), "ISA string of {} characters: {} bytes returned with Length field {}", n, b.len(), le16_at(&b, 2)),
        }
    }
    for extra in [16378usize, 16379, 16380, 16381] {
        let mut hi = HartInfoNode::new(0, &isa);
        for _ in 0..extra { hi = hi.with_cmo(&cmo); }
        match refuses(|| ser(&hi)) {
            Ok(()) => assert!(12 + 4 * (extra + 1) > 65535, "hart info node with {} offsets refused although it fits", extra + 1),
            Err(b) => assert_eq!(le16_at(&b, 2) as usize, b.len(), "hart info node with {} offsets: {} bytes returned with Length field {}", extra + 1, b.len(), le16_at(&b, 2)),
        }
    }
}

// ---- RIMT / VIOT / HEST: count field crossing a byte boundary (C01)
#[test]
fn c01_rimt_checksum_after_256_devices() {
    use acpi_tables::rimt::*;
    let mut t = RIMT::new(*b"FOOBAR", *b"DECAFCOF", 1);
    check_table("RIMT(new)", &ser(&t));
    for i in 0..260u32 {
        t.add_platform(Platform::new(i as u16, "ab".to_string(), None));
        let b = ser(&t);
        check_table(&format!("RIMT after {} adds", i + 1), &b);
        assert_eq!(le32_at(&b, 36), i + 1, "device count");
    }
}
#[test]
fn c18_rimt_oversize_devices_refused() {
    use acpi_tables::rimt::*;
    let wires: Vec<InterruptWire> = (0..8190).map(|i| InterruptWire::new(i, true, true, 0)).collect();
    let r = refuses(|| ser(&Iommu::new(1, None, None, None, Some(wires))));
    if let Err(b) = r {
        panic!("IOMMU device of {} bytes returned with length field {}", b.len(), le16_at(&b, 2));
    }
    let r = refuses(|| ser(&Platform::new(1, "n".repeat(65536), None)));
    if let Err(b) = r {
        panic!("platform device of {} bytes returned with length field {}", b.len(), le16_at(&b, 2));
    }
    // ID-mapping counts at the field maximum, one above, and where a 16-bit count wraps to a small number
    let io = { let mut t = RIMT::new(*b"FOOBAR", *b"DECAFCOF", 1); t.add_iommu(Iommu::new(0, None, None, None, None)) };
    for n in [3275usize, 3276, 3277, 65535, 65536, 65537, 65536 + 3275, 131072 + 1] {
        let maps = |k: usize| -> Vec<IdMapping> { (0..k).map(|i| IdMapping::new(i as u32, i as u32, 1, io, false, false, false)).collect() };
        for which in 0..2 {
            let m = maps(n);
            let r = catch_unwind(AssertUnwindSafe(|| if which == 0 { ser(&PcieRootComplex::new(1, 0, false, false, Some(m))) } else { ser(&Platform::new(1, "p".to_string(), Some(m))) }));
            if let Ok(b) = r {
                assert_eq!(le16_at(&b, 2) as usize, b.len(), "{} with {} ID mappings: Length field vs {} bytes emitted", if which == 0 { "root complex" } else { "platform device" }, n, b.len());
                let cnt_at = if which == 0 { 14 } else { 10 };
                assert_eq!(le16_at(&b, cnt_at) as usize, n, "{} with {} ID mappings: count field", if which == 0 { "root complex" } else { "platform device" }, n);
            }
        }
    }
}

#[test]
fn c01_viot_checksum_after_256_nodes() {
    use acpi_tables::viot::*;
    let mut t = VIOT::new(*b"FOOBAR", *b"DECAFCOF", 1);
    check_table("VIOT(new)", &ser(&t));
    for i in 0..260u32 {
        t.add_virtio_mmio_iommu(VirtIoMmioIommu::new(0x1000 * i as u64));
        let b = ser(&t);
        check_table(&format!("VIOT after {} adds", i + 1), &b);
        assert_eq!(le16_at(&b, 36) as u32, i + 1, "node count");
    }
}
#[test]
fn c18_viot_offsets_beyond_16_bits_refused() {
    use acpi_tables::viot::*;
    // 48 + 4096 * 16 = 65584 > 65535: node offsets (and handles) are 16-bit
    let r = refuses(|| {
        let mut t = VIOT::new(*b"FOOBAR", *b"DECAFCOF", 1);
        for i in 0..4096u64 {
            t.add_virtio_mmio_iommu(VirtIoMmioIommu::new(i));
        }
        let h = t.add_virtio_mmio_iommu(VirtIoMmioIommu::new(0xabcd));
        t.add_mmio_endpoint(MmioEndpoint::new(1, 2, &h));
        ser(&t)
    });
    if let Err(b) = r {
        let n = le16_at(&b, 36);
        let out = le16_at(&b, b.len() - 24 + 16);
        panic!("VIOT of {} bytes returned: node count field {}, last endpoint's output node offset {} (true offset {})", b.len(), n, out, 48 + 4096 * 16);
    }
    // more nodes than the 16-bit node count can hold, all behind one early IOMMU: refused at some
    // point, or else the count field still tells the number of nodes that follow
    let mut t = VIOT::new(*b"FOOBAR", *b"DECAFCOF", 1);
    let h = t.add_virtio_pci_iommu(VirtIoPciIommu::new(PciDevice::new(0, 0, 1, 0)));
    let mut added = 1usize;
    let r = catch_unwind(AssertUnwindSafe(|| {
        for i in 0..65_600u32 {
            if i % 2 == 0 { t.add_mmio_endpoint(MmioEndpoint::new(i, 0x1000 + i as u64, &h)); } else { t.add_pci_range(PciRange::new(PciDevice::new(0, 0, 0, 0), PciDevice::new(0, (i % 256) as u8, 31, 7), &h)); }
            added += 1;
        }
    }));
    if r.is_ok() {
        let b = ser(&t);
        check_table("VIOT with more than 65535 nodes", &b);
        assert_eq!(le16_at(&b, 36) as usize, added, "VIOT of {} bytes returned: node count field {} but {} nodes were added", b.len(), le16_at(&b, 36), added);
    }
}

// ---- PPTT
#[test]
fn c01_pptt_empty_table_checksum() {
    use acpi_tables::pptt::*;
    let t = PPTT::new(*b"FOOBAR", *b"DECAFCOF", 1);
    check_table("PPTT(new)", &ser(&t));
}
#[test]
fn c18_pptt_oversize_processor_node_refused() {
    use acpi_tables::pptt::*;
    let mut t = PPTT::new(*b"FOOBAR", *b"DECAFCOF", 1);
    let c = t.add_cache(CacheNodeBuilder::default().size(1).to_node());
    let mut n = ProcessorNode::new(None, 1);
    for _ in 0..59 {
        n = n.add_cache(&c);
    }
    // 20 + 4 * 59 = 256 does not fit the one-byte length field
    let r = refuses(|| ser(&n));
    if let Err(b) = r {
        panic!("processor node of {} bytes returned with length field {}", b.len(), b[1]);
    }
}

// ---- HMAT (C12 / C18)
#[test]
fn c12_hmat_non_square_matrix_row_major() {
    use acpi_tables::hmat::*;
    let dts = [DataType::AccessLatency, DataType::ReadLatency, DataType::WriteLatency, DataType::AccessBandwidth, DataType::ReadBandwidth, DataType::WriteBandwidth];
    for (n, (ni, nt)) in [(1usize, 3usize), (3, 1), (2, 3), (3, 2), (2, 2), (4, 1), (1, 1), (2, 4), (5, 3), (3, 5), (4, 4), (1, 6)].into_iter().enumerate() {
        let dt = dts[n % 6];
        let mut s = SystemLocality::new(LocalityType::Memory, dt, MinTransferSize::SizeByteAligned, 100, ni, nt);
        assert_eq!(ser(&s)[9], n as u8 % 6, "data type byte");
        let mut model = vec![0xffffu16; ni * nt];
        for i in 0..ni {
            for j in 0..nt {
                let v = (1 + i * 16 + j) as u16;
                s.set_entry_value(i, j, v);
                model[i * nt + j] = v;
                let b = ser(&s);
                assert_eq!(le32_at(&b, 4) as usize, b.len(), "structure length");
                let base = 32 + 4 * ni + 4 * nt;
                let got: Vec<u16> = (0..ni * nt).map(|k| le16_at(&b, base + 2 * k)).collect();
                assert_eq!(got, model, "HMAT {}x{} after set_entry_value({}, {}, {}): row-major matrix (stride = number of targets)", ni, nt, i, j, v);
            }
        }
        // a cell re-assigned to 0xFFFF (or to 0) holds that value like any other
        for (i, j, v) in [(ni - 1, nt - 1, 0xffffu16), (0, 0, 0), (ni - 1, 0, 0xffff)] {
            s.set_entry_value(i, j, v);
            model[i * nt + j] = v;
            let b = ser(&s);
            let base = 32 + 4 * ni + 4 * nt;
            let got: Vec<u16> = (0..ni * nt).map(|k| le16_at(&b, base + 2 * k)).collect();
            assert_eq!(got, model, "HMAT {}x{} after re-assigning ({}, {}) to {:#x}", ni, nt, i, j, v);
        }
        // proximity-domain lists: in-range writes land in their slot; an out-of-range index is either
        // refused or leaves a structure -- and a table holding it -- whose lengths agree with its bytes
        for i in 0..ni { s.set_initiator_value(i, 0x1000 + i as u32); }
        for j in 0..nt { s.set_target_value(j, 0x2000 + j as u32); }
        let b = ser(&s);
        for i in 0..ni { assert_eq!(le32_at(&b, 32 + 4 * i), 0x1000 + i as u32, "initiator list slot {}", i); }
        for j in 0..nt { assert_eq!(le32_at(&b, 32 + 4 * ni + 4 * j), 0x2000 + j as u32, "target list slot {}", j); }
        for (which, idx) in [(0, ni), (0, ni + 2), (1, nt), (1, nt + 3)] {
            let mut s2 = SystemLocality::new(LocalityType::Memory, dt, MinTransferSize::SizeByteAligned, 100, ni, nt);
            let r = catch_unwind(AssertUnwindSafe(|| { if which == 0 { s2.set_initiator_value(idx, 7) } else { s2.set_target_value(idx, 7) } }));
            if r.is_ok() {
                let b = ser(&s2);
                assert_eq!(le32_at(&b, 4) as usize, b.len(), "HMAT {}x{}: out-of-range list index {} accepted, structure Length {} but {} bytes", ni, nt, idx, le32_at(&b, 4), b.len());
                let mut t = HMAT::new(*b"FOOBAR", *b"DECAFCOF", 1);
                t.add_system_locality(s2);
                check_table("HMAT holding a structure whose list index was out of range", &ser(&t));
            }
        }
    }
}
#[test]
fn c18_hmat_too_many_smbios_handles_refused() {
    use acpi_tables::hmat::*;
    let mut c = MemorySideCache::new(1, 4096, CacheLevel::One, CacheLevel::One, Associativity::DirectMapped, WritePolicy::Writeback, 64);
    for i in 0..65536u32 {
        c.add_smbios_handle(i as u16);
    }
    let r = refuses(|| ser(&c));
    if let Err(b) = r {
        panic!("memory side cache with 65536 SMBIOS handles returned: handle count field {}, structure length {}", le16_at(&b, 30), le32_at(&b, 4));
    }
}

// ---- CEDT
/// C03 oracle: walk records with a 1-byte type, 1 reserved byte and a 2-byte length (CEDT style)
fn walk_cedt(name: &str, b: &[u8], expect_types: &[u8]) {
    let mut o = 36;
    let mut seen = Vec::new();
    while o < b.len() {
        assert!(o + 4 <= b.len(), "{}: truncated record header at {}", name, o);
        let l = le16_at(b, o + 2) as usize;
        assert!(l >= 4 && o + l <= b.len(), "{}: record at {} (type {}, length {}) runs past the end of the image ({})", name, o, b[o], l, b.len());
        seen.push(b[o]);
        o += l;
    }
    assert_eq!(o, b.len(), "{}: walk did not land on the end", name);
    assert_eq!(seen, expect_types, "{}: record types", name);
}
#[test]
fn c03_cedt_records_are_self_describing() {
    use acpi_tables::cedt::*;
    let mut t = CEDT::new(*b"FOOBAR", *b"DECAFCOF", 1);
    t.add_host_bridge(CxlHostBridge::new(7, CxlVersion::Cxl2, 0x1000));
    let b = ser(&t);
    check_table("CEDT+CHBS", &b);
    walk_cedt("CEDT+CHBS", &b, &[0]);
    // CHBS (CXL 3.0 table 9-21): type, reserved, length word 32, uid, version, reserved dword, base, length
    assert_eq!(b.len(), 36 + 32);
    assert_eq!(le32_at(&b, 36 + 4), 7);
    assert_eq!(le32_at(&b, 36 + 8), 1);
    assert_eq!(u64::from_le_bytes(b[36 + 16..36 + 24].try_into().unwrap()), 0x1000);
    assert_eq!(u64::from_le_bytes(b[36 + 24..36 + 32].try_into().unwrap()), 0x1_0000);
    let mut t = CEDT::new(*b"FOOBAR", *b"DECAFCOF", 1);
    t.add_port_association(PortAssociation::new(1, 2, 3, 4, ProtocolType::CxlMem, 0x2000));
    t.add_host_bridge(CxlHostBridge::new(7, CxlVersion::Cxl1_1, 0x1000));
    let b = ser(&t);
    check_table("CEDT+RDPAS+CHBS", &b);
    walk_cedt("CEDT+RDPAS+CHBS", &b, &[3, 0]);
    // every interleave arity (the encodings are not monotone: 3/6/12 ways are codes 8/9/10), XOR maps
    let ways = [(InterleaveWays::Ways1, 1usize, 0u8), (InterleaveWays::Ways2, 2, 1), (InterleaveWays::Ways4, 4, 2), (InterleaveWays::Ways8, 8, 3),
                (InterleaveWays::Ways16, 16, 4), (InterleaveWays::Ways3, 3, 8), (InterleaveWays::Ways6, 6, 9), (InterleaveWays::Ways12, 12, 10)];
    // a window with fewer (or more) targets than its interleave arity is refused, never emitted mis-sized
    for (w, cnt, _) in ways.iter().copied() {
        for given in [0usize, cnt - 1, cnt + 1] {
            if given == cnt { continue; }
            let r = catch_unwind(AssertUnwindSafe(|| {
                let mut f = CxlFixedMemory::new(0, 0x1000_0000, InterleaveArithmetic::Modulo, InterleaveGranularity::Granularity256b, w, 0);
                for k in 0..given { f.add_target([b'T', b'0', b'0' + (k / 10) as u8, b'0' + (k % 10) as u8]); }
                let mut t = CEDT::new(*b"FOOBAR", *b"DECAFCOF", 1);
                t.add_fixed_memory(f);
                t.add_host_bridge(CxlHostBridge::new(1, CxlVersion::Cxl2, 0x1000));
                ser(&t)
            }));
            if let Ok(b) = r {
                check_table("CEDT with a mis-populated CFMWS", &b);
                walk_cedt("CEDT with a mis-populated CFMWS", &b, &[1, 0]);
            }
        }
    }
    let mut t = CEDT::new(*b"FOOBAR", *b"DECAFCOF", 1);
    let mut types = Vec::new();
    for (n, (w, cnt, code)) in ways.into_iter().enumerate() {
        let mut f = CxlFixedMemory::new(0x1_0000_0000 * n as u64, 0x1000_0000, InterleaveArithmetic::Modulo, InterleaveGranularity::Granularity256b, w, n as u16);
        for k in 0..cnt { f.add_target([b'H', b'B', b'0' + n as u8, b'a' + k as u8]); }
        let fb = ser(&f);
        assert_eq!(fb.len(), 0x24 + 4 * cnt, "CFMWS with {} targets: emitted size", cnt);
        assert_eq!(le16_at(&fb, 2) as usize, fb.len(), "CFMWS with {} targets: record length", cnt);
        assert_eq!(fb[0x18], code, "CFMWS interleave ways code");
        t.add_fixed_memory(f);
        types.push(1u8);
        let mut x = XorInterleaveMath::new(InterleaveGranularity::Granularity256b);
        for k in 0..(n * 37 % 256) { x.add_xormap(k as u64 * 0x0101_0101); }
        let xb = ser(&x);
        assert_eq!(le16_at(&xb, 2) as usize, xb.len(), "CXIMS record length");
        assert_eq!(xb[7] as usize, n * 37 % 256, "CXIMS bitmap count");
        assert_eq!(xb.len(), 8 + 8 * (n * 37 % 256));
        t.add_xor_interleave_math(x);
        types.push(2u8);
        let b = ser(&t);
        check_table("CEDT history", &b);
        walk_cedt("CEDT history", &b, &types);
    }
}
#[test]
fn c11_cedt_window_restriction_bits_are_distinct() {
    use acpi_tables::cedt::*;
    let mk = || CxlFixedMemory::new(0, 0x1000_0000, InterleaveArithmetic::Modulo, InterleaveGranularity::Granularity256b, InterleaveWays::Ways1, 0);
    let r = |mut f: CxlFixedMemory| { f.add_target(*b"CPU0"); le16_at(&ser(&f), 0x20) };
    assert_eq!(r(mk()), 0);
    assert_eq!(r(mk().cxl_type_2_memory()), 1 << 0, "CXL type 2 memory is restriction bit 0");
    assert_eq!(r(mk().cxl_type_3_memory()), 1 << 1, "CXL type 3 memory is restriction bit 1");
    assert_eq!(r(mk().volatile()), 1 << 2);
    assert_eq!(r(mk().persistent()), 1 << 3);
    assert_eq!(r(mk().fixed_configuration()), 1 << 4);
    assert_eq!(r(mk().cxl_type_3_memory().volatile().cxl_type_3_memory()), (1 << 1) | (1 << 2));
}
#[test]
fn c18_cedt_too_many_xor_maps_refused() {
    use acpi_tables::cedt::*;
    let mut x = XorInterleaveMath::new(InterleaveGranularity::Granularity256b);
    for i in 0..256u64 {
        x.add_xormap(i);
    }
    let r = refuses(|| ser(&x));
    if let Err(b) = r {
        panic!("CXIMS with 256 bitmaps returned: bitmap count field {}, record length {}", b[7], le16_at(&b, 2));
    }
}

// ---- MADT
#[test]
fn c11_madt_gic_msi_spi_select_flag_gates_the_values() {
    use acpi_tables::madt::*;
    // ACPI 6.5 table 5.47: flags bit 0 "SPI Count/Base Select": 1 = the SPI Count and Base fields of
    // this structure are to be used, 0 = they are ignored (hardware MSI_TYPER is used)
    let unset = ser(&GicMsi::new());
    assert_eq!(le32_at(&unset, 16) & 1, 0, "no SPI values supplied -> select flag must be clear");
    let set = ser(&GicMsi::new().spi_count_and_base(8, 64));
    assert_eq!(le16_at(&set, 20), 8);
    assert_eq!(le16_at(&set, 22), 64);
    assert_eq!(le32_at(&set, 16) & 1, 1, "SPI values supplied -> select flag must be set");
}

// ---- HEST
#[test]
fn c01_hest_checksum_after_256_sources() {
    use acpi_tables::hest::*;
    let mut t = HEST::new(*b"FOOBAR", *b"DECAFCOF", 1);
    check_table("HEST(new)", &ser(&t));
    for i in 0..260u32 {
        t.add_structure(PcieAerDevice::new_global().num_records(i));
        let b = ser(&t);
        check_table(&format!("HEST after {} adds", i + 1), &b);
        assert_eq!(le32_at(&b, 36), i + 1, "error source count");
    }
}

// ---- fixed tables
#[test]
fn c02_spcr_length_and_namespace_offset() {
    use acpi_tables::spcr::*;
    let b = ser(&SPCR::sbi(*b"FOOBAR", *b"DECAFCOF", 1));
    check_table("SPCR", &b);
    // SPCR revision 4: NamespaceStringLength at 84, NamespaceStringOffset at 86 (from the table start)
    let nlen = le16_at(&b, 84) as usize;
    let noff = le16_at(&b, 86) as usize;
    assert_eq!(noff, 88, "NamespaceStringOffset is relative to the start of the table");
    assert_eq!(noff + nlen, b.len(), "namespace string ends the table");
    assert_eq!(&b[noff..], &[b'.', 0]);
}
#[test]
fn c02_rqsc_empty_table_length() {
    use acpi_tables::rqsc::*;
    let b = ser(&RQSC::new(*b"FOOBAR", *b"DECAFCOF", 1));
    check_table("RQSC(new)", &b);
    assert_eq!(le32_at(&b, 36), 0, "controller count");
}
#[test]
fn c01_tcpa_server_checksum_without_builder_calls() {
    use acpi_tables::tpm2::*;
    let b = ser(&TpmServer1_2::new(*b"FOOBAR", *b"DECAFCOF", 1));
    check_table("TCPA server (new)", &b);
    assert_eq!(le16_at(&b, 36), 1, "platform class = server");
}

// =======================================================================================
// Generic per-property oracles (run after an obligation of the named module failed / could not
// be checked; bounded: they validate, they never prove)
// =======================================================================================
fn le64_at(b: &[u8], o: usize) -> u64 { u64::from_le_bytes(b[o..o + 8].try_into().unwrap()) }
const U64S: [u64; 10] = [0, 1, 0xff, 0x100, 0xffff_ffff, 0x1_0000_0000, 0x0fff_ffff_ffff_ffff, 0x1000_0000_0000_0000, 0x8000_0000_0000_0000, u64::MAX];
const U32S: [u32; 8] = [0, 1, 0xff, 0x100, 0xffff, 0x1_0000, 0x8000_0000, u32::MAX];

// ---- C17: accumulator against a wide-integer reference
#[test]
fn c17_checksum_accumulator_reference() {
    use acpi_tables::Checksum;
    for s in 0..=255u8 {
        for b in [0u8, 1, 2, 0x7f, 0x80, 0xfe, 0xff, s] {
            let mut c = Checksum::default();
            c.add(s);
            assert_eq!(c.raw_value(), s);
            c.add(b);
            assert_eq!(c.raw_value() as u32, (s as u32 + b as u32) % 256, "add");
            c.sub(b);
            assert_eq!(c.raw_value(), s, "sub undoes add");
            c.sub(b);
            assert_eq!(c.raw_value() as i32, (s as i32 - b as i32).rem_euclid(256), "sub");
            assert_eq!((c.raw_value() as u32 + c.value() as u32) % 256, 0, "value()");
        }
    }
    // wide values through the sink: the accumulator advances by the sum of their bytes, for every
    // combination of boundary byte values in every position
    {
        let bv = [0u8, 1, 0x7f, 0x80, 0xfe, 0xff];
        for &b0 in &bv { for &b1 in &bv { for &b2 in &bv { for &b3 in &bv {
            let dw = u32::from_le_bytes([b0, b1, b2, b3]);
            let want = b0.wrapping_add(b1).wrapping_add(b2).wrapping_add(b3);
            let mut c = Checksum::default();
            { let s: &mut dyn AmlSink = &mut c; s.dword(dw); }
            assert_eq!(c.raw_value(), want, "sink dword({:#x})", dw);
            let mut c = Checksum::default();
            { let s: &mut dyn AmlSink = &mut c; s.word(dw as u16); s.word((dw >> 16) as u16); }
            assert_eq!(c.raw_value(), want, "sink word x2 ({:#x})", dw);
            for hi in [0u32, 0xffff_ffff, 0x00ff_ffff, 0x12ff_8080, dw] {
                let qw = (dw as u64) | ((hi as u64) << 32);
                let mut c = Checksum::default();
                { let s: &mut dyn AmlSink = &mut c; s.qword(qw); }
                assert_eq!(c.raw_value(), bsum(&qw.to_le_bytes()), "sink qword({:#x})", qw);
                let mut c = Checksum::default();
                c.append(&qw.to_le_bytes());
                assert_eq!(c.raw_value(), bsum(&qw.to_le_bytes()), "append of the bytes of {:#x}", qw);
            }
        }}}}
    }
    // long runs of one byte value, through append and through the sink
    for (b, n) in [(1u8, 256usize), (1, 257), (0xff, 300), (3, 256), (0x80, 512), (7, 255), (0, 1000)] {
        let data = vec![b; n];
        let want = ((b as usize * n) % 256) as u8;
        let mut c = Checksum::default();
        c.append(&data);
        assert_eq!(c.raw_value(), want, "append of {} x {:#x}", n, b);
        let mut d = Checksum::default();
        { let s: &mut dyn AmlSink = &mut d; s.vec(&data); }
        assert_eq!(d.raw_value(), want, "sink vec of {} x {:#x}", n, b);
        let mut e = Checksum::default();
        { let s: &mut dyn AmlSink = &mut e; s.dword(256); s.vec(&data); s.byte(2); }
        assert_eq!(e.raw_value(), want.wrapping_add(1).wrapping_add(2), "dword, run, byte through the sink");
        d.delete(&data);
        assert_eq!(d.raw_value(), 0, "delete undoes a run of {} x {:#x}", n, b);
    }
    // removal as the very first operation on a fresh accumulator
    for b in [1u8, 2, 0x7f, 0x80, 0xff] {
        let mut c = Checksum::default();
        c.sub(b);
        assert_eq!(c.raw_value(), 0u8.wrapping_sub(b), "sub({}) on a fresh accumulator", b);
        assert_eq!((c.raw_value() as u32 + c.value() as u32) % 256, 0);
        let mut d = Checksum::default();
        d.delete(&[b, 1, 2]);
        assert_eq!(d.raw_value(), 0u8.wrapping_sub(b).wrapping_sub(3), "delete on a fresh accumulator");
        d.append(&[b, 1, 2]);
        assert_eq!(d.raw_value(), 0, "append undoes delete");
        assert_eq!(d.value(), 0);
    }
    for len in [0usize, 1, 2, 255, 256, 257, 515, 516, 517, 1024, 4099, 70000] {
        for fill in [0u8, 1, 0x80, 0xff] {
            let data: Vec<u8> = (0..len).map(|i| if i % 3 == 0 { fill } else { fill.wrapping_add(i as u8) }).collect();
            let want = data.iter().fold(0u64, |a, x| a + *x as u64);
            let mut c = Checksum::default();
            c.add(7);
            c.append(&data);
            assert_eq!(c.raw_value() as u64, (7 + want) % 256, "append len {} fill {}", len, fill);
            let mut d = Checksum::default();
            d.add(7);
            {
                let s: &mut dyn AmlSink = &mut d;
                s.vec(&data);
            }
            assert_eq!(d.raw_value(), c.raw_value(), "sink == append");
            c.delete(&data);
            assert_eq!(c.raw_value(), 7, "delete undoes append len {} fill {}", len, fill);
        }
    }
}

// ---- C08: integers
fn ref_int(v: u64) -> Vec<u8> {
    match v {
        0 => vec![0x00],
        1 => vec![0x01],
        2..=0xff => vec![0x0a, v as u8],
        0x100..=0xffff => { let mut r = vec![0x0b]; r.extend_from_slice(&(v as u16).to_le_bytes()); r }
        0x1_0000..=0xffff_ffff => { let mut r = vec![0x0c]; r.extend_from_slice(&(v as u32).to_le_bytes()); r }
        _ => { let mut r = vec![0x0e]; r.extend_from_slice(&v.to_le_bytes()); r }
    }
}
#[test]
fn c08_integer_encodings_reference() {
    // an EISA id is an integer like any other: the same bytes as that number through any integer type,
    // hence the narrowest form (ids whose product digits are all zero fit a Word)
    for id in ["PNP0000", "ABC0000", "ZZZ0000", "PNP0001", "PNP0100", "PNP0A03", "AAA000F", "@@@0000"] {
        let c = id.as_bytes();
        let hx = |b: u8| (b as char).to_digit(16).unwrap();
        let be = (((c[0] - 0x40) as u32) << 26) | (((c[1] - 0x40) as u32) << 21) | (((c[2] - 0x40) as u32) << 16)
            | (hx(c[3]) << 12) | (hx(c[4]) << 8) | (hx(c[5]) << 4) | hx(c[6]);
        let v = be.swap_bytes();
        let b = ser(&EISAName::new(id));
        assert_eq!(b, ref_int(v as u64), "EISA id {} (value {:#x}): narrowest integer form", id, v);
        assert_eq!(b, ser(&v), "EISA id {} equals the same number as u32", id);
        assert_eq!(b, ser(&(v as u64)), "EISA id {} equals the same number as u64", id);
    }
    for v in 0..=0xffffu32 {
        let w = ref_int(v as u64);
        assert_eq!(ser(&(v as u16)), w, "u16 {}", v);
        assert_eq!(ser(&v), w, "u32 {}", v);
        assert_eq!(ser(&(v as u64)), w, "u64 {}", v);
        assert_eq!(ser(&(v as usize)), w, "usize {}", v);
        if v <= 0xff { assert_eq!(ser(&(v as u8)), w, "u8 {}", v); }
    }
    // the same constants as package elements (both construction paths), as a Name's value, and as the
    // BufferSize the crate computes itself: one encoding everywhere
    for v in [0u64, 1, 2, 0xff, 0x100, 0xffff, 0x1_0000, 0xffff_ffff, 0x1_0000_0000, 0x1122_3344_5566_7788, 0xffff_ffff_0000_0001, u64::MAX] {
        let w = ref_int(v);
        let p = ser(&Package::new(vec![&v]));
        assert_eq!(&p[p.len() - w.len()..], &w[..], "Package element {:#x}", v);
        let mut pb = PackageBuilder::new();
        pb.add_element(&v);
        let q = ser(&pb);
        assert_eq!(q, p, "PackageBuilder element {:#x}", v);
        let n = ser(&Name::new("VAL0".into(), &v));
        assert_eq!(&n[n.len() - w.len()..], &w[..], "Name value {:#x}", v);
    }
    for n in [0usize, 1, 2, 3, 254, 255, 256, 257, 65535, 65536, 65537] {
        let b = ser(&BufferData::new(vec![0x5a; n]));
        let (_, w) = pkg_decode(&b[1..]);
        let size = ref_int(n as u64);
        assert_eq!(&b[1 + w..1 + w + size.len()], &size[..], "BufferSize of a {}-byte buffer is the narrowest integer encoding", n);
        assert_eq!(b.len(), 1 + w + size.len() + n, "buffer of {} bytes", n);
    }
    for base in [0x1_0000u64, 0xffff_ffff, 0x1_0000_0000, u64::MAX - 2, 1 << 31, 1 << 32, 1 << 63] {
        for d in 0..5u64 {
            let v = base.wrapping_add(d).wrapping_sub(2);
            let w = ref_int(v);
            assert_eq!(ser(&v), w, "u64 {:#x}", v);
            assert_eq!(ser(&(v as usize)), w, "usize {:#x}", v);
            if v <= u32::MAX as u64 { assert_eq!(ser(&(v as u32)), w, "u32 {:#x}", v); }
        }
    }
}

// ---- C09: name paths
fn ref_name(rooted: bool, segs: &[String]) -> Vec<u8> {
    let mut r = Vec::new();
    if rooted { r.push(b'\\'); }
    match segs.len() { 1 => {}, 2 => r.push(0x2e), n => { r.push(0x2f); r.push(n as u8); } }
    for s in segs { r.extend_from_slice(s.as_bytes()); }
    r
}
#[test]
fn c09_name_paths_reference() {
    for n in (1..=12usize).chain([100, 254, 255]) {
        for rooted in [false, true] {
            let segs: Vec<String> = (0..n).map(|i| format!("{}{:03}", ['A', '_', 'Z', 'M'][i % 4], i % 1000)).collect();
            let s = format!("{}{}", if rooted { "\\" } else { "" }, segs.join("."));
            assert_eq!(ser(&Path::new(&s)), ref_name(rooted, &segs), "path {:?}", s);
        }
    }
    for n in 1..=5usize {
        for pos in 0..n {
            for badlen in [0usize, 1, 2, 3, 5, 6, 7, 8] {
                for rooted in [false, true] {
                    let segs: Vec<String> = (0..n).map(|i| if i == pos { "X".repeat(badlen) } else { format!("S{:03}", i) }).collect();
                    let s = format!("{}{}", if rooted { "\\" } else { "" }, segs.join("."));
                    let r = catch_unwind(AssertUnwindSafe(|| ser(&Path::new(&s))));
                    assert!(r.is_err(), "malformed path {:?} was accepted: {:02x?}", s, r.ok());
                }
            }
        }
    }
    // every short string over {A . \}, through both construction routes (Path::new and From<&str>)
    let alphabet = ['A', '.', '\\'];
    for len in 0..=9usize {
        for code in 0..3usize.pow(len as u32) {
            let mut c = code;
            let s: String = (0..len).map(|_| { let ch = alphabet[c % 3]; c /= 3; ch }).collect();
            let rooted = s.starts_with('\\');
            let body = if rooted { &s[1..] } else { &s[..] };
            let segs: Vec<String> = body.split('.').map(|x| x.to_string()).collect();
            let well_formed = !segs.is_empty() && segs.iter().all(|x| x.len() == 4);   // the crate does not restrict the characters of a segment
            let via_new = catch_unwind(AssertUnwindSafe(|| ser(&Path::new(&s))));
            let via_from = catch_unwind(AssertUnwindSafe(|| { let p: Path = s.as_str().into(); ser(&p) }));
            if well_formed {
                let want = ref_name(rooted, &segs);
                assert_eq!(via_new.ok(), Some(want.clone()), "Path::new({:?})", s);
                assert_eq!(via_from.ok(), Some(want), "Path::from({:?})", s);
            } else {
                assert!(via_new.is_err(), "malformed path {:?} was accepted by Path::new: {:02x?}", s, via_new.ok());
                assert!(via_from.is_err(), "malformed path {:?} was accepted by From<&str>: {:02x?}", s, via_from.ok());
            }
        }
    }
}

// ---- C07 / C15 / C06: PkgLength framing through public objects at every width boundary
#[test]
fn c07_pkg_length_framing_at_boundaries() {
    let sizes: Vec<usize> = (0..=130).chain(4080..=4110).chain((1 << 20) - 12..(1 << 20) + 6).collect();
    for n in sizes {
        // Scope::raw: path (4 bytes) + n child bytes
        let raw = Scope::raw("_SB_".into(), vec![0xa3u8; n]);
        assert_eq!(raw[0], 0x10);
        let (len, w) = pkg_decode(&raw[1..]);
        assert_eq!(len, raw.len() - 1, "Scope::raw content {}: PkgLength decodes to {}, object spans {}", n + 4, len, raw.len() - 1);
        let minimal = if len <= 63 { 1 } else if len <= 4095 { 2 } else if len <= (1 << 20) - 1 { 3 } else { 4 };
        assert_eq!(w, minimal, "Scope::raw content {}: PkgLength width", n + 4);
        if w > 1 { assert_eq!(raw[1] & 0x30, 0, "reserved bits"); }
        // same object through Scope::new
        let filler = Raw(vec![0xa3u8; n]);
        let viaobj = ser(&Scope::new("_SB_".into(), vec![&filler]));
        assert_eq!(viaobj, raw, "Scope::new vs Scope::raw at content {}", n + 4);
        // BufferData: size integer + data
        if n < 5000 {
            let b = ser(&BufferData::new(vec![0x5au8; n]));
            assert_eq!(b[0], 0x11);
            let (len, w) = pkg_decode(&b[1..]);
            assert_eq!(len, b.len() - 1, "BufferData {}", n);
            assert_eq!(&b[1 + w..1 + w + ref_int(n as u64).len()], &ref_int(n as u64)[..], "BufferData size {}", n);
        }
    }
}
/// C06: the expression operators -- opcode from the ACPI AML opcode table (20.3), operands in the
/// grammar's order (binary: Operand Operand Target; LGreaterEqual := LNot LLess, LLessEqual := LNot LGreater,
/// LNotEqual := LNot LEqual)
#[test]
fn c06_operator_opcodes() {
    let (a, b, t) = (Arg(1), Local(2), Local(7));
    let (ab, bb, tb) = (vec![0x69u8], vec![0x62u8], vec![0x67u8]);
    macro_rules! bin { ($ty:ident, $op:expr) => {{
        let want: Vec<u8> = [&[$op][..], &ab[..], &bb[..], &tb[..]].concat();
        assert_eq!(ser(&$ty::new(&t, &a, &b)), want, concat!(stringify!($ty), ": opcode, Operand, Operand, Target"));
    }}; }
    bin!(Add, 0x72); bin!(Concat, 0x73); bin!(Subtract, 0x74); bin!(Multiply, 0x77); bin!(ShiftLeft, 0x79); bin!(ShiftRight, 0x7a);
    bin!(And, 0x7b); bin!(Nand, 0x7c); bin!(Or, 0x7d); bin!(Nor, 0x7e); bin!(Xor, 0x7f); bin!(ConcatRes, 0x84); bin!(Mod, 0x85);
    bin!(Index, 0x88); bin!(ToString, 0x9c); bin!(CreateDWordField, 0x8a); bin!(CreateQWordField, 0x8f);
    macro_rules! cmp { ($ty:ident, $ops:expr) => {{
        let want: Vec<u8> = [&$ops[..], &ab[..], &bb[..]].concat();
        assert_eq!(ser(&$ty::new(&a, &b)), want, concat!(stringify!($ty), ": opcode(s), left operand, right operand"));
    }}; }
    cmp!(Equal, [0x93u8]); cmp!(LessThan, [0x95u8]); cmp!(GreaterThan, [0x94u8]);
    cmp!(NotEqual, [0x92u8, 0x93]); cmp!(GreaterEqual, [0x92u8, 0x95]); cmp!(LessEqual, [0x92u8, 0x94]);
    macro_rules! un { ($ty:ident, $op:expr) => {{
        assert_eq!(ser(&$ty::new(&a)), [&[$op][..], &ab[..]].concat(), concat!(stringify!($ty), ": opcode, operand"));
    }}; }
    un!(ObjectType, 0x8e); un!(SizeOf, 0x87); un!(Return, 0xa4); un!(DeRefOf, 0x83);
    macro_rules! conv { ($ty:ident, $op:expr) => {{
        assert_eq!(ser(&$ty::new(&t, &a)), [&[$op][..], &ab[..], &tb[..]].concat(), concat!(stringify!($ty), ": opcode, Operand, Target"));
    }}; }
    conv!(ToBuffer, 0x96); conv!(ToInteger, 0x99);
    assert_eq!(ser(&Store::new(&t, &a)), [&[0x70u8][..], &ab[..], &tb[..]].concat(), "Store: opcode, source, destination");
}
/// C06/C07: every length-delimited container, with name paths of 1..4 segments (rooted or not) and
/// children that reach the sink through each of its entry points (byte, word, dword, qword, vec):
/// the PkgLength covers exactly the object, the name is the reference NameString, and the children
/// follow in order, the last one ending the object
#[test]
fn c06_containers_names_and_wide_constants() {
    // a field name is the bare NameString; a named object is NameOp + NameString + value
    assert_eq!(ser(&Name::new_field_name("FLD0")), b"FLD0".to_vec(), "field name");
    assert_eq!(ser(&Name::new("OBJ0".into(), &0x1234u16)), [&[0x08u8][..], b"OBJ0", &[0x0b, 0x34, 0x12]].concat(), "named object");
    {
        let (buf, idx, f) = (Path::new("BUF0"), 4u8, Name::new_field_name("FLD1"));
        assert_eq!(ser(&CreateDWordField::new(&f, &buf, &idx)), [&[0x8au8][..], b"BUF0", &[0x0a, 4], b"FLD1"].concat(), "CreateDWordField(BUF0, 4, FLD1)");
        assert_eq!(ser(&CreateQWordField::new(&f, &buf, &idx)), [&[0x8fu8][..], b"BUF0", &[0x0a, 4], b"FLD1"].concat(), "CreateQWordField(BUF0, 4, FLD1)");
    }
    // containers with no children are still emitted: opcode and a PkgLength counting itself
    assert_eq!(ser(&Else::new(vec![])), vec![0xa1, 0x01], "empty Else");
    assert_eq!(ser(&If::new(&ONE, vec![])), vec![0xa0, 0x02, 0x01], "If with an empty body");
    assert_eq!(ser(&While::new(&ONE, vec![])), vec![0xa2, 0x02, 0x01], "While with an empty body");
    {
        let (i, e) = (If::new(&ZERO, vec![]), Else::new(vec![]));
        let m = Method::new("M000".into(), 0, false, vec![&i, &e]);
        let b = ser(&m);
        assert_eq!(&b[b.len() - 5..], &[0xa0, 0x02, 0x00, 0xa1, 0x01], "If / empty Else pair inside a method");
        assert_eq!(pkg_decode(&b[1..]).0, b.len() - 1, "method PkgLength covers both");
    }
    let q1 = 0x1_0000_0000u64;
    let q2 = 0x1234_5678_9abc_def0u64;
    let d = 0xdead_beefu32;
    let w = 0x1234u16;
    let by = 0x7fu8;
    let st = "txt";
    let ret = Return::new(&q2);
    let kids: Vec<&dyn Aml> = vec![&by, &w, &d, &q1, &st, &ret, &q2];
    let mut tail: Vec<u8> = Vec::new();
    for k in &kids { tail.extend_from_slice(&ser(*k)); }
    assert_eq!(ser(&q1), vec![0x0e, 0, 0, 0, 0, 1, 0, 0, 0]);
    assert_eq!(ser(&ret), [&[0xa4u8][..], &ser(&q2)[..]].concat());
    for nseg in 1..=4usize {
        for rooted in [false, true] {
            let segs: Vec<String> = (0..nseg).map(|i| ["_SB_", "PCI0", "LPCB", "EC0_"][i].to_string()).collect();
            let pstr = format!("{}{}", if rooted { "\\" } else { "" }, segs.join("."));
            let name = ref_name(rooted, &segs);
            let check = |what: &str, b: Vec<u8>, op: &[u8], after_name: &[u8]| {
                assert_eq!(&b[..op.len()], op, "{} opcode", what);
                let (len, pw) = pkg_decode(&b[op.len()..]);
                assert_eq!(len, b.len() - op.len(), "{} {:?}: PkgLength decodes to {}, object spans {}", what, pstr, len, b.len() - op.len());
                let mut o = op.len() + pw;
                assert_eq!(&b[o..o + name.len()], &name[..], "{} {:?}: NameString", what, pstr); o += name.len();
                assert_eq!(&b[o..o + after_name.len()], after_name, "{} {:?}: fixed fields after the name", what, pstr); o += after_name.len();
                assert_eq!(&b[o..], &tail[..], "{} {:?}: children in order, ending the object", what, pstr);
            };
            check("Device", ser(&Device::new(pstr.as_str().into(), kids.clone())), &[0x5b, 0x82], &[]);
            check("Scope", ser(&Scope::new(pstr.as_str().into(), kids.clone())), &[0x10], &[]);
            check("Method", ser(&Method::new(pstr.as_str().into(), 3, true, kids.clone())), &[0x14], &[0x0b]);
            check("PowerResource", ser(&PowerResource::new(pstr.as_str().into(), 2, 0x0304, kids.clone())), &[0x5b, 0x84], &[2, 4, 3]);
        }
    }
    // containers without a name
    let b = ser(&Package::new(kids.clone()));
    let (len, pw) = pkg_decode(&b[1..]);
    assert_eq!((b[0], len, b[1 + pw]), (0x12, b.len() - 1, kids.len() as u8)); assert_eq!(&b[2 + pw..], &tail[..], "Package elements");
    let mut pb = PackageBuilder::new();
    for k in &kids { pb.add_element(*k); }
    assert_eq!(ser(&pb), b, "PackageBuilder == Package");
    let mut pd = PackageBuilder::default();
    for k in &kids { pd.add_element(*k); }
    assert_eq!(ser(&pd), b, "PackageBuilder::default() == PackageBuilder::new()");
    assert_eq!(ser(&PackageBuilder::default()), vec![0x12, 0x02, 0x00], "empty default package builder");
    let one = 1u8;
    let b = ser(&If::new(&one, kids.clone()));
    let (len, pw) = pkg_decode(&b[1..]);
    assert_eq!((b[0], len, b[1 + pw]), (0xa0, b.len() - 1, 0x01)); assert_eq!(&b[2 + pw..], &tail[..], "If body");
    let b = ser(&While::new(&one, kids.clone()));
    let (len, pw) = pkg_decode(&b[1..]);
    assert_eq!((b[0], len, b[1 + pw]), (0xa2, b.len() - 1, 0x01)); assert_eq!(&b[2 + pw..], &tail[..], "While body");
}
/// C07/C06: field lists -- every Named/Reserved width (exclusive PkgLength form) at the width
/// boundaries, parsed back entry by entry; the Field's own PkgLength covers exactly the list
#[test]
fn c07_field_widths_at_boundaries() {
    let widths: Vec<usize> = (0..=70).chain(4090..=4100).chain((1 << 20) - 3..(1 << 20) + 3).chain([(1 << 28) - 1]).collect();
    for (n, w) in widths.iter().enumerate() {
        let entries = vec![FieldEntry::Named(*b"FLD0", *w), FieldEntry::Reserved(*w), FieldEntry::Named(*b"FLD1", 1), FieldEntry::Reserved(widths[(n * 7) % widths.len()]), FieldEntry::Named(*b"FLD2", *w)];
        let f = Field::new("REGN".into(), FieldAccessType::DWord, FieldLockRule::Lock, FieldUpdateRule::WriteAsOnes, entries.clone());
        let b = ser(&f);
        assert_eq!((b[0], b[1]), (0x5b, 0x81));
        let (len, pw) = pkg_decode(&b[2..]);
        assert_eq!(len, b.len() - 2, "Field PkgLength with entry width {}", w);
        let mut o = 2 + pw;
        assert_eq!(&b[o..o + 4], b"REGN"); o += 4;
        assert_eq!(b[o], 3 | (1 << 4) | (1 << 5), "field flags"); o += 1;
        for e in &entries {
            let want = match e {
                FieldEntry::Named(name, l) => { assert_eq!(&b[o..o + 4], &name[..], "NamedField name at {} (width {})", o, w); o += 4; *l }
                FieldEntry::Reserved(l) => { assert_eq!(b[o], 0, "ReservedField marker at {} (width {})", o, w); o += 1; *l }
            };
            let follow = (b[o] >> 6) as usize;
            assert!(o + 1 + follow <= b.len(), "PkgLeadByte {:#x} at {} announces {} follow byte(s) that are not present (width {})", b[o], o, follow, want);
            let (got, gw) = pkg_decode(&b[o..]);
            assert_eq!(got, want, "field width {} decodes to {}", want, got);
            if gw > 1 { assert_eq!(b[o] & 0x30, 0, "reserved bits of the lead byte (width {})", want); }
            o += gw;
        }
        assert_eq!(o, b.len(), "field list consumed exactly");
    }
}
#[test]
fn c15_package_builder_equals_package() {
    assert_eq!(ser(&Scope::new("_SB_".into(), vec![])), Scope::raw("_SB_".into(), vec![]), "empty scope: object path vs raw path");
    assert_eq!(Scope::raw("_SB_".into(), vec![]), vec![0x10, 0x05, b'_', b'S', b'B', b'_']);
    for n in 0..=255usize {
        let els: Vec<u32> = (0..n).map(|i| [0u32, 1, 0xff, 0x100, 0x12345, 0xffff_ffff][i % 6]).collect();
        let refs: Vec<&dyn Aml> = els.iter().map(|e| e as &dyn Aml).collect();
        let mut pb = PackageBuilder::new();
        for e in &els { pb.add_element(e); }
        assert_eq!(ser(&pb), ser(&Package::new(refs)), "{} elements", n);
    }
    // elements of every width, incl. QWords whose halves differ, resource descriptors and registers
    {
        let q: [u64; 5] = [0x1_0000_0000, 0x1234_5678_9abc_def0, u64::MAX - 1, 0xffff_ffff_0000_0000, 0x0000_0001_ffff_ffff];
        let us: [usize; 2] = [0x7654_3210_0f1e_2d3c, 0x1_0000_0001];
        let (w, d, by) = (0xbeefu16, 0xdead_beefu32, 0x7fu8);
        let a64 = AddressSpace::new_memory(AddressSpaceCacheable::NotCacheable, true, 0x1_0000_0000u64, 0x2_ffff_ffffu64, None);
        let st = "str";
        let mut els: Vec<&dyn Aml> = vec![&by, &w, &d, &st, &a64];
        for x in &q { els.push(x); }
        for x in &us { els.push(x); }
        let mut pb = PackageBuilder::new();
        for e in &els { pb.add_element(*e); }
        let want = ser(&Package::new(els.clone()));
        assert_eq!(ser(&pb), want, "package of mixed-width elements: builder vs list");
        let mut bo = ByteOnly(Vec::new());
        Package::new(els.clone()).to_aml_bytes(&mut bo);
        assert_eq!(bo.0, want, "package of mixed-width elements through a byte-only sink");
        let mut tail = Vec::new();
        for e in &els { tail.extend_from_slice(&ser(*e)); }
        assert_eq!(&want[want.len() - tail.len()..], &tail[..], "package body is its elements in order");
        for x in q { assert_eq!(ser(&x)[1..], x.to_le_bytes(), "QWord {:#x} little-endian", x); }
    }
    for s in ["a string", "", "x", "ACPI\0", "\0", "a\0b", "\0\0", "caf\u{e9}", "Temp \u{b0}C", "\u{4e2d}\u{6587}", "tab\tquote\"", "\u{7f}\u{80}\u{ff}\u{100}"] {
        let owned = s.to_string();
        assert_eq!(ser(&s), ser(&owned), "borrowed vs owned string {:?}", s);
        let mut want = vec![0x0d];
        want.extend_from_slice(s.as_bytes());
        want.push(0);
        assert_eq!(ser(&owned), want, "string {:?}: StringPrefix, the string's bytes, NUL", s);
    }
}

// ---- C10: resource descriptors and templates
#[test]
fn c10_resource_templates_reference() {
    // payloads of every size around the one-byte / two-byte BufferSize boundary (odd sizes through a
    // 9-byte Interrupt descriptor)
    for n in 20..=36usize {
        for m in 0..3usize {
            let ios: Vec<IO> = (0..n).map(|i| IO::new(0x100 + i as u16, 0x3f8, 8, 4)).collect();
            let mems: Vec<Memory32Fixed> = (0..m).map(|i| Memory32Fixed::new(true, 0x8000_0000 + i as u32, 0x1000)).collect();
            let irq = Interrupt::new(true, false, false, true, 5);
            let mut kids: Vec<&dyn Aml> = ios.iter().map(|e| e as &dyn Aml).collect();
            kids.push(&irq);
            for x in &mems { kids.push(x); }
            let b = ser(&ResourceTemplate::new(kids));
            let payload_len = 8 * n + 9 + 12 * m + 2;
            assert_eq!(b[0], 0x11);
            let (len, w) = pkg_decode(&b[1..]);
            assert_eq!(len, b.len() - 1, "template with a {}-byte payload: PkgLength", payload_len);
            let size = ref_int(payload_len as u64);
            assert_eq!(&b[1 + w..1 + w + size.len()], &size[..], "template with a {}-byte payload: BufferSize", payload_len);
            assert_eq!(b.len() - (1 + w + size.len()), payload_len, "template with a {}-byte payload: bytes after BufferSize", payload_len);
            assert_eq!(&b[b.len() - 2..], &[0x79, 0x00], "end tag");
        }
    }
    // large templates keep every payload byte, trailing zeros included
    for n in [10usize, 21, 22, 40] {
        let ds: Vec<AddressSpace<u32>> = (0..n).map(|_| AddressSpace::new_memory(AddressSpaceCacheable::NotCacheable, true, 0u32, 0u32, None)).collect();
        let kids: Vec<&dyn Aml> = ds.iter().map(|e| e as &dyn Aml).collect();
        let b = ser(&ResourceTemplate::new(kids));
        let one = ser(&ds[0]).len();
        let payload_len = one * n + 2;
        let (len, w) = pkg_decode(&b[1..]);
        assert_eq!(len, b.len() - 1, "template of {} DWord descriptors: PkgLength", n);
        let size = ref_int(payload_len as u64);
        assert_eq!(&b[1 + w..1 + w + size.len()], &size[..], "template of {} DWord descriptors: BufferSize", n);
        assert_eq!(b.len() - (1 + w + size.len()), payload_len, "template of {} DWord descriptors: payload present in full", n);
        assert_eq!(&b[b.len() - 2..], &[0x79, 0x00], "end tag with its checksum byte");
    }
    for n in (0..=40usize).chain([5461, 5462, 7281, 7282]).chain(8186..=8194) {
        let ios: Vec<IO> = (0..n).map(|i| IO::new(0x100 + i as u16, 0x3f8 + 257 * (i as u16 % 7), 8, 4)).collect();
        let mems: Vec<Memory32Fixed> = (0..n % 3).map(|i| Memory32Fixed::new(i % 2 == 0, 0x8000_0000 + i as u32, 0xffff_fff0)).collect();
        let mut kids: Vec<&dyn Aml> = ios.iter().map(|e| e as &dyn Aml).collect();
        for m in &mems { kids.push(m); }
        let b = ser(&ResourceTemplate::new(kids));
        assert_eq!(b[0], 0x11);
        let (len, w) = pkg_decode(&b[1..]);
        assert_eq!(len, b.len() - 1, "template of {} descriptors: PkgLength", n);
        let payload_len = 8 * n + 12 * (n % 3) + 2;
        let size = ref_int(payload_len as u64);
        assert_eq!(&b[1 + w..1 + w + size.len()], &size[..], "template of {} descriptors: buffer size", n);
        let mut o = 1 + w + size.len();
        assert_eq!(b.len() - o, payload_len);
        for i in 0..n {
            assert_eq!(b[o], 0x47); assert_eq!(b[o + 1], 1);
            assert_eq!(le16_at(&b, o + 2), 0x100 + i as u16, "IO min");
            assert_eq!(le16_at(&b, o + 4), 0x3f8 + 257 * (i as u16 % 7), "IO max");
            assert_eq!(b[o + 6], 8); assert_eq!(b[o + 7], 4);
            o += 8;
        }
        for i in 0..n % 3 {
            assert_eq!(b[o], 0x86); assert_eq!(le16_at(&b, o + 1), 9);
            assert_eq!(b[o + 3], (i % 2 == 0) as u8);
            assert_eq!(le32_at(&b, o + 4), 0x8000_0000 + i as u32);
            assert_eq!(le32_at(&b, o + 8), 0xffff_fff0);
            o += 12;
        }
        assert_eq!(&b[o..], &[0x79, 0x00]);
    }
    // every payload length around the BufferSize width changes (ByteConst/WordConst/DWordConst),
    // inside a Device and followed by a sibling so that a mis-framed Buffer is seen from outside
    for payload in (2usize..=20).chain(245..=270).chain(65525..=65545) {
        let k = (payload - 2) % 8;                  // 9-byte Interrupt descriptors
        if 9 * k > payload - 2 { continue; }
        let m = (payload - 2 - 9 * k) / 8;          // 8-byte IO descriptors
        let irqs: Vec<Interrupt> = (0..k).map(|i| Interrupt::new(true, i % 2 == 0, false, i % 3 == 0, 32 + i as u32)).collect();
        let ios: Vec<IO> = (0..m).map(|i| IO::new(i as u16, i as u16, 1, 1)).collect();
        let mut kids: Vec<&dyn Aml> = irqs.iter().map(|e| e as &dyn Aml).collect();
        for e in &ios { kids.push(e); }
        let rt = ResourceTemplate::new(kids);
        let b = ser(&rt);
        assert_eq!(b[0], 0x11);
        let (len, w) = pkg_decode(&b[1..]);
        assert_eq!(len, b.len() - 1, "template payload {}: PkgLength decodes to {}, Buffer spans {}", payload, len, b.len() - 1);
        let size = ref_int(payload as u64);
        assert_eq!(&b[1 + w..1 + w + size.len()], &size[..], "template payload {}: BufferSize", payload);
        assert_eq!(b.len(), 1 + w + size.len() + payload, "template payload {}: total", payload);
        assert_eq!(&b[b.len() - 2..], &[0x79, 0x00]);
        let crs = Name::new("_CRS".into(), &rt);
        let uid = Name::new("_UID".into(), &7u8);
        let d = ser(&Device::new("DEV0".into(), vec![&crs, &uid]));
        let (dl, dw) = pkg_decode(&d[1 + 1..]);
        assert_eq!(d[0], 0x5b); assert_eq!(d[1], 0x82);
        assert_eq!(dl, d.len() - 2, "Device PkgLength with template payload {}", payload);
        let tail = ser(&uid);
        assert_eq!(&d[d.len() - tail.len()..], &tail[..], "sibling after the template (payload {})", payload);
        assert_eq!(d.len(), 2 + dw + 4 + ser(&crs).len() + tail.len());
    }
    // children whose own bytes end in 0x79 0x00 (the end tag's bytes), last and not last
    {
        let m = Memory32Fixed::new(true, 0x1000, 0x0079_0000);
        let i = Interrupt::new(true, true, false, false, 0x0079_0000);
        let io = IO::new(0x10, 0x20, 0x79, 0);
        let plain = IO::new(1, 2, 3, 4);
        let sets: Vec<Vec<&dyn Aml>> = vec![vec![&m], vec![&i], vec![&io], vec![&plain, &m], vec![&m, &plain], vec![&io, &i, &m], vec![&m, &m]];
        for kids in sets {
            let payload: usize = kids.iter().map(|k| ser(*k).len()).sum::<usize>() + 2;
            let b = ser(&ResourceTemplate::new(kids));
            let (len, w) = pkg_decode(&b[1..]);
            assert_eq!(len, b.len() - 1);
            let size = ref_int(payload as u64);
            assert_eq!(&b[1 + w..1 + w + size.len()], &size[..], "BufferSize counts the children and the end tag ({} bytes)", payload);
            assert_eq!(b.len(), 1 + w + size.len() + payload, "children + end tag, whatever the last child's bytes are");
            assert_eq!(&b[b.len() - 2..], &[0x79, 0x00]);
        }
    }
    // Generic Register descriptor (ACPI 6.4.3.7): 0x82, length 12, then the GAS fields in order
    {
        use acpi_tables::gas::{AccessSize, AddressSpace as Sp, GAS};
        use zerocopy::IntoBytes;
        // codes from ACPI 6.5 table 5.1 (address space IDs, access sizes), not from the crate's enums
        let sizes = [(AccessSize::Undefined, 0u8), (AccessSize::ByteAccess, 1), (AccessSize::WordAccess, 2), (AccessSize::DwordAccess, 3), (AccessSize::QwordAccess, 4)];
        let spaces = [(Sp::SystemMemory, 0u8), (Sp::SystemIo, 1), (Sp::PciConfigSpace, 2), (Sp::EmbeddedController, 3), (Sp::Smbus, 4), (Sp::SystemCmos, 5), (Sp::PciBarTarget, 6),
                      (Sp::Ipmi, 7), (Sp::GeneralPursposeIo, 8), (Sp::GenericSerialBus, 9), (Sp::PlatformCommunicationsChannel, 0x0a), (Sp::PlatformRuntimeMechanism, 0x0b), (Sp::FunctionalFixedHardware, 0x7f)];
        for (i, (sp, sp_code)) in spaces.into_iter().enumerate() {
            for (j, (sz, sz_code)) in sizes.into_iter().enumerate() {
                let (width, off, addr) = ((8 << (i % 4)) as u8, (j * 5 + i) as u8, 0x0102_0304_0506_0708u64.rotate_left((8 * (i + j)) as u32));
                let g = GAS::new(sp, width, off, sz, addr);
                let mut want = vec![sp_code, width, off, sz_code];
                want.extend_from_slice(&addr.to_le_bytes());
                assert_eq!(ser(&g), want, "GAS serialised field order (space, width, offset, access size, address)");
                assert_eq!(g.as_bytes(), &want[..], "GAS raw form");
                let mut r = vec![0x82, 0x0c, 0x00];
                r.extend_from_slice(&want);
                assert_eq!(ser(&Register::new(g)), r, "Register descriptor");
            }
        }
    }
    let b = ser(&Interrupt::new(true, false, true, false, 0x1234_5678));
    assert_eq!(b, vec![0x89, 6, 0, 0b0101, 1, 0x78, 0x56, 0x34, 0x12]);
    for bits in 0..16u8 {
        let (c, e, l, sh) = (bits & 1 != 0, bits & 2 != 0, bits & 4 != 0, bits & 8 != 0);
        let b = ser(&Interrupt::new(c, e, l, sh, 0xdead_beef));
        assert_eq!(b, vec![0x89, 6, 0, (c as u8) | (e as u8) << 1 | (l as u8) << 2 | (sh as u8) << 3, 1, 0xef, 0xbe, 0xad, 0xde], "Interrupt flags {:04b}", bits);
    }
    let b = ser(&AddressSpace::<u64>::new_memory(AddressSpaceCacheable::PreFetchable, true, 0x1_0000_0000, 0x1_ffff_ffff, Some(5)));
    assert_eq!(b[0], 0x8a); assert_eq!(le16_at(&b, 1) as usize, b.len() - 3); assert_eq!(b[3], 0); assert_eq!(b[4], 0x0c); assert_eq!(b[5], 7);
    assert_eq!(le64_at(&b, 14), 0x1_0000_0000); assert_eq!(le64_at(&b, 22), 0x1_ffff_ffff); assert_eq!(le64_at(&b, 30), 5); assert_eq!(le64_at(&b, 38), 0x1_0000_0000);
    // the type-specific flags do not depend on whether a translation offset was given
    for tr in [None, Some(0u16), Some(0x1000)] {
        let b = ser(&AddressSpace::<u16>::new_io(0x100, 0x1ff, tr));
        assert_eq!((b[0], le16_at(&b, 1), b[3], b[4], b[5]), (0x88, 13, 1, 0x0c, 3), "WordIO descriptor header and flags with translation {:?}", tr);
        assert_eq!((le16_at(&b, 8), le16_at(&b, 10), le16_at(&b, 12), le16_at(&b, 14)), (0x100, 0x1ff, tr.unwrap_or(0), 0x100));
    }
    for tr in [None, Some(0u32), Some(0x10_0000)] {
        let b = ser(&AddressSpace::<u32>::new_io(0x1000, 0x1fff, tr));
        assert_eq!((b[0], b[3], b[4], b[5]), (0x87, 1, 0x0c, 3), "DWordIO flags with translation {:?}", tr);
        let b = ser(&AddressSpace::<u64>::new_io(0x1000, 0x1fff, tr.map(|x| x as u64)));
        assert_eq!((b[0], b[3], b[4], b[5]), (0x8a, 1, 0x0c, 3), "QWordIO flags with translation {:?}", tr);
    }
    let b = ser(&AddressSpace::<u16>::new_bus_number(0, 0xfe));
    assert_eq!(b, vec![0x88, 13, 0, 2, 0x0c, 0, 0, 0, 0, 0, 0xfe, 0, 0, 0, 0xff, 0]);
}

// ---- C16: EISA ids and UUIDs
#[test]
fn c16_eisa_and_uuid_reference() {
    let hexd = b"0123456789ABCDEF";
    for (i, l) in (b'A'..=b'Z').enumerate() {
        for d in 0..16usize {
            let id = [l, b'A' + ((i * 7 + d) % 26) as u8, b'Z' - (d as u8 % 26), hexd[d], hexd[(d * 3 + i) % 16], hexd[15 - d], hexd[(d + i) % 16]];
            let s = std::str::from_utf8(&id).unwrap();
            let b = ser(&EISAName::new(s));
            assert_eq!(b[0], 0x0c, "EISA id {} encodes as a DWord", s);
            let v = u32::from_le_bytes([b[1], b[2], b[3], b[4]]).swap_bytes();
            let back = [0x40 + ((v >> 26) & 0x1f) as u8, 0x40 + ((v >> 21) & 0x1f) as u8, 0x40 + ((v >> 16) & 0x1f) as u8,
                        hexd[((v >> 12) & 0xf) as usize], hexd[((v >> 8) & 0xf) as usize], hexd[((v >> 4) & 0xf) as usize], hexd[(v & 0xf) as usize]];
            assert_eq!(back, id, "EISA id {} decompresses to {:?}", s, std::str::from_utf8(&back));
        }
    }
    let u = "33DB4D5B-1FF7-401C-9657-7441C03DD766";
    let want = [0x5b, 0x4d, 0xdb, 0x33, 0xf7, 0x1f, 0x1c, 0x40, 0x96, 0x57, 0x74, 0x41, 0xc0, 0x3d, 0xd7, 0x66];
    for s in [u.to_string(), u.to_lowercase()] {
        let b = ser(&Uuid::new(&s));
        assert_eq!(&b[b.len() - 16..], &want[..], "ToUUID({})", s);
    }
    for pos in 0..36usize {
        for bad in ['g', '+', ' ', '-', 'x'] {
            let mut cs: Vec<char> = u.chars().collect();
            if cs[pos] == bad { continue; }
            cs[pos] = bad;
            let s: String = cs.into_iter().collect();
            let r = catch_unwind(AssertUnwindSafe(|| ser(&Uuid::new(&s))));
            assert!(r.is_err(), "malformed UUID {:?} was accepted", s);
        }
    }
    // separators moved by one place (still four '-' and 32 hex digits), doubled, or dropped
    for dash in [8usize, 13, 18, 23] {
        for other in [dash - 1, dash + 1] {
            let mut cs: Vec<char> = u.chars().collect();
            cs.swap(dash, other);
            let s: String = cs.into_iter().collect();
            assert!(catch_unwind(AssertUnwindSafe(|| ser(&Uuid::new(&s)))).is_err(), "UUID with a misplaced separator {:?} was accepted", s);
        }
    }
    for s in ["33DB4D5B--1FF7401C-9657-7441C03DD766", "33DB4D5B1FF7-401C-9657-7441C03DD766-", "-33DB4D5B-1FF7-401C-96577441C03DD766", "33DB4D5B-1FF7-401C-9657-7441C03DD76", "33DB4D5B-1FF7-401C-9657-7441C03DD7666"] {
        assert!(catch_unwind(AssertUnwindSafe(|| ser(&Uuid::new(s)))).is_err(), "malformed UUID {:?} was accepted", s);
    }
    // EISA ids: a non-hex product character or a short / long string is refused, never repaired
    for bad in ["PNPG501", "PNP05G1", "PNP050G", "PNP 501", "PNP+501", "PNP05-1"] {
        assert!(catch_unwind(AssertUnwindSafe(|| ser(&EISAName::new(bad)))).is_err(), "EISA id {:?} was accepted", bad);
    }
    for s in ["", "PNP", "PNP0A0", "PNP0A033", "pnp0a03"] {
        if s.len() == 7 { continue; }
        assert!(catch_unwind(AssertUnwindSafe(|| EISAName::new(s))).is_err(), "EISA id {:?} accepted", s);
    }
}

// ---- C13 / C14: generic table against a vector model, through every entry point
fn model_fix(v: &mut Vec<u8>) { v[9] = 0; let s = bsum(v); v[9] = 0u8.wrapping_sub(s); }
#[test]
fn c13_generic_table_vector_model() {
    use acpi_tables::sdt::Sdt;
    for init in [36u32, 37, 38, 40, 255, 256] {
        let mut t = Sdt::new(*b"TEST", init, 1, *b"FOOBAR", *b"DECAFCOF", 7);
        let mut m = t.as_slice().to_vec();
        assert_eq!(m.len(), init as usize);
        check_table("Sdt(new)", &m);
        let mut step = 0u32;
        let mut app = |t: &mut Sdt, m: &mut Vec<u8>, d: &[u8], how: u8| {
            match how {
                0 => t.append_slice(d),
                1 => { let s: &mut dyn AmlSink = t; s.vec(d) }
                _ => { for b in d { let s: &mut dyn AmlSink = t; s.byte(*b) } }
            }
            m.extend_from_slice(d);
            let l = m.len() as u32;
            m[4..8].copy_from_slice(&l.to_le_bytes());
            model_fix(m);
        };
        for round in 0..40u32 {
            let d: Vec<u8> = (0..(round % 9)).map(|i| (round * 37 + i * 11) as u8).collect();
            app(&mut t, &mut m, &d, (round % 3) as u8);
            assert_eq!(t.as_slice(), &m[..], "init {} after append #{} ({} bytes, entry point {})", init, round, d.len(), round % 3);
            assert_eq!(bsum(t.as_slice()), 0, "Sdt sums to 0");
            // typed appends and in-range writes
            t.append(round as u8); m.push(round as u8); let l = m.len() as u32; m[4..8].copy_from_slice(&l.to_le_bytes()); model_fix(&mut m);
            t.append(0xa1b2u16 ^ round as u16); m.extend_from_slice(&(0xa1b2u16 ^ round as u16).to_le_bytes()); let l = m.len() as u32; m[4..8].copy_from_slice(&l.to_le_bytes()); model_fix(&mut m);
            assert_eq!(t.as_slice(), &m[..], "typed appends");
            // wide values pushed through the sink interface arrive little-endian, low half first
            {
                let (w, dw, qw) = (0x1234u16 ^ round as u16, 0x89ab_cdefu32 ^ (round << 16), 0x0102_0304_a5b6_c7d8u64 ^ ((round as u64) << 40));
                { let s: &mut dyn AmlSink = &mut t; s.word(w); } m.extend_from_slice(&w.to_le_bytes());
                { let s: &mut dyn AmlSink = &mut t; s.dword(dw); } m.extend_from_slice(&dw.to_le_bytes());
                { let s: &mut dyn AmlSink = &mut t; s.qword(qw); } m.extend_from_slice(&qw.to_le_bytes());
                t.append(dw); m.extend_from_slice(&dw.to_le_bytes());
                t.append(qw); m.extend_from_slice(&qw.to_le_bytes());
                let l = m.len() as u32; m[4..8].copy_from_slice(&l.to_le_bytes()); model_fix(&mut m);
                assert_eq!(t.as_slice(), &m[..], "word / dword / qword through the sink interface, typed u32 / u64 appends");
            }
            let off = (round as usize * 5) % (m.len() - 8);
            t.write_u32(off, 0xdead_0000 | round); m[off..off + 4].copy_from_slice(&(0xdead_0000u32 | round).to_le_bytes()); model_fix(&mut m);
            t.write_u8(m.len() - 1, 0x5a); let e = m.len() - 1; m[e] = 0x5a; model_fix(&mut m);
            assert_eq!(t.as_slice(), &m[..], "writes (offset {})", off);
            assert_eq!(bsum(t.as_slice()), 0, "Sdt after writes sums to 0");
            // writes over the header itself: the Length field made smaller / larger than the contents,
            // the checksum byte, the signature -- the image is still the vector with byte 9 fixed up
            for (o, v) in [(4usize, 36u32), (4, 0), (4, m.len() as u32 - 1), (4, u32::MAX), (8, 0x0000_ff00 | round), (0, 0x5445_5354), (6, 0xffff_0000)] {
                t.write_u32(o, v); m[o..o + 4].copy_from_slice(&v.to_le_bytes()); model_fix(&mut m);
                assert_eq!(t.as_slice(), &m[..], "write_u32({}, {:#x}) over the header", o, v);
                assert_eq!(ser(&t), m, "after write_u32({}, {:#x}) over the header, serialising still delivers the whole vector ({} bytes)", o, v, m.len());
                { let mut bo = ByteOnly(Vec::new()); t.to_aml_bytes(&mut bo); assert_eq!(bo.0, m, "byte-only sink after write_u32({}, {:#x})", o, v); }
                assert_eq!(bsum(t.as_slice()), 0, "Sdt sums to 0 after write_u32({}, {:#x}) over the header ({} bytes)", o, v, m.len());
            }
            t.write_u8(4, 38); m[4] = 38; model_fix(&mut m);
            t.write_u8(9, 0x77); m[9] = 0x77; model_fix(&mut m);
            assert_eq!(t.as_slice(), &m[..], "write_u8 over Length / checksum bytes");
            assert_eq!(ser(&t), m, "serialising the table delivers the whole vector, whatever its Length field says");
            { let mut bo = ByteOnly(Vec::new()); t.to_aml_bytes(&mut bo); assert_eq!(bo.0, m, "byte-only sink"); }
            assert_eq!(bsum(t.as_slice()), 0, "Sdt sums to 0 after byte writes over the header");
            // the Length field written ahead of time, then an append that brings the table to exactly that size
            for d in [&[1u8, 2, 3, 4][..], &[0xffu8][..], &[9u8, 8, 7][..]] {
                let ahead = (m.len() + d.len()) as u32;
                t.write_u32(4, ahead); m[4..8].copy_from_slice(&ahead.to_le_bytes()); model_fix(&mut m);
                t.append_slice(d); m.extend_from_slice(d); let l = m.len() as u32; m[4..8].copy_from_slice(&l.to_le_bytes()); model_fix(&mut m);
                assert_eq!(t.as_slice(), &m[..], "Length written ahead ({}), then {} bytes appended", ahead, d.len());
                assert_eq!(bsum(t.as_slice()), 0, "Sdt sums to 0 after Length was written ahead and the append caught up");
                let ahead = (m.len() + 1) as u32;
                t.write_u32(4, ahead); m[4..8].copy_from_slice(&ahead.to_le_bytes()); model_fix(&mut m);
                t.append(0x33u8); m.push(0x33); let l = m.len() as u32; m[4..8].copy_from_slice(&l.to_le_bytes()); model_fix(&mut m);
                assert_eq!(t.as_slice(), &m[..], "Length written ahead, then a typed append");
                // rewriting bytes with the values they already hold changes nothing
                let keep = m[0..8].to_vec();
                t.write_u64(0, u64::from_le_bytes(keep.clone().try_into().unwrap())); model_fix(&mut m);
                assert_eq!(t.as_slice(), &m[..], "idempotent write over the header");
            }
            t.append_slice(&[]); let l = m.len() as u32; m[4..8].copy_from_slice(&l.to_le_bytes()); model_fix(&mut m);
            assert_eq!(t.as_slice(), &m[..], "empty append restores Length");
            step += 1;
        }
        let before = t.as_slice().to_vec();
        let n = t.len();
        assert!(catch_unwind(AssertUnwindSafe(|| { let mut c = Sdt::new(*b"TEST", 40, 1, *b"FOOBAR", *b"DECAFCOF", 7); c.write_u32(37, 1); c })).is_err(), "write past the end accepted");
        // a refused write, whatever its width, leaves every byte as it was
        for back in 1..=7usize {
            let keep = t.as_slice().to_vec();
            let off = t.len() - back;
            let r = catch_unwind(AssertUnwindSafe(|| { t.write_u64(off, 0x1122_3344_5566_7788); }));
            assert!(r.is_err(), "write_u64 at {} of a {}-byte table was accepted", off, t.len());
            assert_eq!(t.as_slice(), &keep[..], "refused write_u64 at {} (table of {} bytes) modified the table", off, keep.len());
            if back <= 3 {
                let r = catch_unwind(AssertUnwindSafe(|| { t.write_u32(off, 0xaabb_ccdd); }));
                assert!(r.is_err()); assert_eq!(t.as_slice(), &keep[..], "refused write_u32 at {} modified the table", off);
            }
        }
        assert_eq!(t.as_slice(), &before[..]); assert_eq!(t.len(), n); let _ = step;
    }
}
/// C14: for every structure that can be added to a table through its raw in-memory form, that raw
/// form equals its serialised form, and u8sum equals the sum of the serialised bytes
#[test]
fn c14_raw_form_equals_serialised() {
    use acpi_tables::{hest, hmat, madt, srat, u8sum};
    use zerocopy::IntoBytes;
    macro_rules! same { ($name:expr, $v:expr) => {{
        let v = $v;
        let b = ser(&v);
        assert_eq!(v.as_bytes(), &b[..], "{}: raw in-memory form vs serialised form", $name);
        assert_eq!(u8sum(&v), bsum(&b), "{}: u8sum", $name);
        let mut s = ByteOnly(Vec::new());
        v.to_aml_bytes(&mut s);
        assert_eq!(s.0, b, "{}: byte-only sink", $name);
    }}; }
    for en in [hest::EnabledStatus::Disabled, hest::EnabledStatus::Enabled] {
        same!("GHES (default notification)", hest::GenericHardwareSource::new(0x1234, en));
        same!("GHES (explicit notification)", hest::GenericHardwareSource::new(7, en).notification(hest::NotificationStructure::new(hest::NotificationType::Sci)).max_sections(3).error_status_block_len(0x1000));
        same!("GHESv2 (default notification)", hest::GenericHardwareSourceV2::new(0xfffe, en));
        same!("GHESv2 (explicit notification)", hest::GenericHardwareSourceV2::new(9, en).notification(hest::NotificationStructure::new(hest::NotificationType::ExternalGsiv)));
    }
    same!("notification (polled)", hest::NotificationStructure::new(hest::NotificationType::Polled));
    same!("AER root port (global)", hest::PcieAerRootPort::new_global());
    same!("AER root port", hest::PcieAerRootPort::new_root_port(hest::FirmwareFirst::Enabled, hest::PciDevice::new(0xfe, 31, 7)));
    same!("AER device (global)", hest::PcieAerDevice::new_global());
    same!("AER bridge (global)", hest::PcieAerBridge::new_global());
    same!("AER bridge", hest::PcieAerBridge::new_bridge(hest::FirmwareFirst::Disabled, hest::PciDevice::new(1, 2, 3)));
    same!("HMAT proximity domain", hmat::MemoryProximityDomain::new(0xdead_beef, 0x0102_0304));
    same!("LAPIC", madt::ProcessorLocalApic::new(0xfe, 0x7f, madt::EnabledStatus::DisabledOnlineCapable));
    same!("IOAPIC", madt::IoApic::new(3, 0xfec0_0000, 0x0000_0100));
    same!("GICC", madt::Gicc::new(madt::EnabledStatus::Enabled).mpidr(0x8000_0001).overflow_interrupt(7));
    same!("GICC (every field distinct)", madt::Gicc::new(madt::EnabledStatus::Enabled).performance_interrupt(0x0102_0304, madt::Trigger::Edge).maintenance_interrupt(0x1112_1314, madt::Trigger::Level)
        .cpu_interface_number(0x2122_2324).acpi_processor_uid(0x3132_3334).parking_protocol_version(0x4142_4344).parked_address(0x5152_5354_5556_5758).base_address(0x6162_6364_6566_6768)
        .virtual_registers(0x7172_7374_7576_7778).control_block_registers(0x8182_8384_8586_8788).redistributor_base(0x9192_9394_9596_9798).mpidr(0xa1a2_a3a4_a5a6_a7a8)
        .power_efficiency_class(0xb1).overflow_interrupt(0xc1c2).trbe_interrupt(0xd1d2));
    same!("GICD", madt::Gicd::new(1, 0x0800_0000, madt::GicVersion::GICv3));
    same!("GIC MSI", madt::GicMsi::new());
    same!("GIC MSI (all fields distinct)", madt::GicMsi::new().gic_msi_frame_id(0x0102_0304).base_addr(0x1112_1314_1516_1718).spi_count_and_base(0x2122, 0x3132));
    same!("GICR", madt::Gicr::new(0x080a_0000, 0x00f6_0000));
    same!("GIC ITS", madt::GicIts::new(2, 0x0808_0000));
    same!("RINTC", madt::RINTC::new(madt::HartStatus::OnlineCapable, u64::MAX - 1, 0x0102_0304, 0xfffe_fdfc, 0x2800_0000, 0x1000));
    same!("IMSIC", madt::IMSIC::new(255, 63, 1, 2, 3, 24));
    same!("APLIC", madt::APLIC::new(1, *b"RSCV0002", 4, 0x60, 0xd00_0000, 0x8000, 96));
    same!("PLIC", madt::PLIC::new(1, *b"RSCV0001", 96, 7, 0x60_0000, 0xc00_0000, 0));
    {
        let g = ser(&madt::GicMsi::new().gic_msi_frame_id(0x0102_0304).base_addr(0x1112_1314_1516_1718).spi_count_and_base(0x2122, 0x3132));
        assert_eq!(g, vec![13, 24, 0, 0, 4, 3, 2, 1, 0x18, 0x17, 0x16, 0x15, 0x14, 0x13, 0x12, 0x11, 1, 0, 0, 0, 0x22, 0x21, 0x32, 0x31], "GIC MSI frame layout (ACPI 6.5 table 5.41)");
    }
    same!("SRAT RINTC affinity", srat::RintcAffinity::new(*b"\x01\x02\x03\x04", 0x0a0b_0c0d));
    {
        use acpi_tables::tpm2::TpmServer1_2;
        same!("TCPA server (new)", TpmServer1_2::new(OEM, TBL, 1));
        same!("TCPA server (bus_is_pnp last)", TpmServer1_2::new(OEM, TBL, 1).log_area(1, 2).bus_is_pnp());
        same!("TCPA server (active_low last)", TpmServer1_2::new(OEM, TBL, 1).bus_is_pnp().active_low());
        same!("TCPA server (edge_triggered last)", TpmServer1_2::new(OEM, TBL, 1).sci_gpe(3).edge_triggered());
        same!("TCPA server (pci_sbdf last)", TpmServer1_2::new(OEM, TBL, 1).gsi(4).pci_sbdf(1, 2, 3, 4));
        same!("TCPA server (log_area last)", TpmServer1_2::new(OEM, TBL, 1).bus_is_pnp().log_area(5, 6));
    }
}
struct ByteOnly(Vec<u8>);
impl AmlSink for ByteOnly { fn byte(&mut self, b: u8) { self.0.push(b) } }
#[test]
fn c14_sinks_agree() {
    use acpi_tables::{madt, srat, u8sum};
    let a = madt::Gicc::new(madt::EnabledStatus::Enabled).mpidr(0x8000_0001).overflow_interrupt(7);
    let b = srat::MemoryAffinity::new(3, u64::MAX, 0x1234).enabled();
    let m = Method::new("MTH0".into(), 2, true, vec![&0x1234_5678u32, &"str"]);
    let objs: Vec<&dyn Aml> = vec![&a, &b, &m];
    for o in objs {
        let v = ser(o);
        let mut s = ByteOnly(Vec::new());
        o.to_aml_bytes(&mut s);
        assert_eq!(s.0, v, "byte-only sink");
        assert_eq!(ser(o), v, "repeatable");
        assert_eq!(u8sum(o), bsum(&v), "u8sum");
        let mut pb = PackageBuilder::new();
        pb.add_element(o);
        let p = ser(&pb);
        assert_eq!(&p[p.len() - v.len()..], &v[..], "package-builder sink");
    }
    // every primitive of every sink, on values whose bytes differ and whose byte sums carry
    struct Prims(u8, u16, u32, u64, Vec<u8>);
    impl Aml for Prims {
        fn to_aml_bytes(&self, sink: &mut dyn AmlSink) {
            sink.byte(self.0); sink.word(self.1); sink.dword(self.2); sink.qword(self.3); sink.vec(&self.4);
            sink.qword(self.3); sink.dword(self.2); sink.word(self.1); sink.byte(self.0);
        }
    }
    let words = [0u16, 1, 0xff, 0x100, 0x80ff, 0xff80, 0xffff, 0x1234];
    let dwords = [0u32, 0x00ff_00ff, 0x0080_0080, 0xdead_beef, 0x80f0_80f0, 0xffff_ffff, 0x0102_0304, 0xff00_ff00];
    let qwords = [0u64, 0x0000_0001_0000_0000, 0x1122_3344_5566_7788, 0xffff_ffff_0000_0000, 0x00ff_00ff_00ff_00ff, u64::MAX, 0x8000_0000_0000_0001, 0xdead_beef_cafe_f00d];
    for i in 0..8usize {
        for j in 0..8usize {
            let pr = Prims((37 * i + j) as u8 ^ 0xa5, words[i], dwords[j], qwords[(i + j) % 8], (0..(i * 41 + j)).map(|k| (k * 7 + 0x80) as u8).collect());
            let mut reference = ByteOnly(Vec::new());
            pr.to_aml_bytes(&mut reference);
            let mut expect = vec![pr.0];
            expect.extend_from_slice(&pr.1.to_le_bytes()); expect.extend_from_slice(&pr.2.to_le_bytes()); expect.extend_from_slice(&pr.3.to_le_bytes());
            expect.extend_from_slice(&pr.4);
            expect.extend_from_slice(&pr.3.to_le_bytes()); expect.extend_from_slice(&pr.2.to_le_bytes()); expect.extend_from_slice(&pr.1.to_le_bytes()); expect.push(pr.0);
            assert_eq!(reference.0, expect, "default word/dword/qword/vec are little-endian byte sequences");
            assert_eq!(ser(&pr), expect, "Vec<u8> sink primitives");
            assert_eq!(u8sum(&pr), bsum(&expect), "Checksum sink primitives ({:#x} {:#x} {:#x})", pr.1, pr.2, pr.3);
            let mut pb = PackageBuilder::new();
            pb.add_element(&pr);
            let p = ser(&pb);
            assert_eq!(&p[p.len() - expect.len()..], &expect[..], "PackageBuilder sink primitives");
            let mut t = acpi_tables::sdt::Sdt::new(*b"TEST", 36, 1, *b"FOOBAR", *b"DECAFCOF", 1);
            pr.to_aml_bytes(&mut t);
            assert_eq!(&t.as_slice()[36..], &expect[..], "Sdt sink primitives");
            assert_eq!(bsum(t.as_slice()), 0, "Sdt sink keeps the sum");
            assert_eq!(le32_at(t.as_slice(), 4) as usize, t.len(), "Sdt sink keeps Length");
        }
    }
}

// =======================================================================================
// Table oracles: histories (C01/C02), walks (C03), decoding (C04), handles (C05), options (C11)
// =======================================================================================
const OEM: [u8; 6] = *b"FOOBAR";
const TBL: [u8; 8] = *b"DECAFCOF";

#[test]
fn c01_history_xsdt() {
    use acpi_tables::*;
    let mut t = xsdt::XSDT::new(OEM, TBL, 1);
    check_table("XSDT(new)", &ser(&t));
    let mut want: Vec<u64> = Vec::new();
    for i in 0..300u64 {
        // repeated addresses are entries like any other (A, B, A; A, A)
        let e = if i % 5 == 4 { want[(i as usize * 7) % want.len()] } else if i % 11 == 10 { *want.last().unwrap() } else { 0x1000 * i + (i << 40) };
        t.add_entry(e); want.push(e);
        let b = ser(&t);
        check_table("XSDT", &b);
        assert_eq!(b.len(), 36 + 8 * want.len(), "XSDT after {} add_entry calls", want.len());
        let got: Vec<u64> = (0..want.len()).map(|k| le64_at(&b, 36 + 8 * k)).collect();
        assert_eq!(got, want, "XSDT entries are exactly the ones added, in order");
    }
}
#[test]
fn c01_history_mcfg() {
    use acpi_tables::*;
    let mut t = mcfg::MCFG::new(OEM, TBL, 1);
    check_table("MCFG(new)", &ser(&t));
    for i in 0..300u64 { t.add_ecam(i << 28, i as u16, 0, (i % 256) as u8); check_table("MCFG", &ser(&t)); }
}
#[test]
fn c01_history_madt() {
    use acpi_tables::*;
    let mut t = madt::MADT::new(OEM, TBL, 1, madt::LocalInterruptController::Address(0xfee0_0000));
    check_table("MADT(new)", &ser(&t));
    for i in 0..300u32 {
        match i % 4 {
            0 => t.add_structure(madt::ProcessorLocalApic::new(i as u8, i as u8, madt::EnabledStatus::Enabled)),
            1 => t.add_structure(madt::Gicc::new(madt::EnabledStatus::DisabledOnlineCapable).mpidr(i as u64)),
            2 => t.add_structure(madt::RINTC::new(madt::HartStatus::Enabled, i as u64, i, 0, 0, 0)),
            _ => t.add_structure(madt::IoApic::new(i as u8, 0xfec0_0000, i)),
        }
        check_table("MADT", &ser(&t));
    }
}
/// C02 / C03: structures of every kind `add_structure` accepts are counted by what they contribute to
/// the image, and the body is walked in insertion order whichever builder added the entry
#[derive(Clone, Copy, zerocopy::IntoBytes, zerocopy::Immutable)]
#[repr(C)]
struct LapicWithIoApic { lapic: acpi_tables::madt::ProcessorLocalApic, ioapic: acpi_tables::madt::IoApic }
acpi_tables::aml_as_bytes!(LapicWithIoApic);
#[test]
fn c03_madt_insertion_order_and_foreign_structures() {
    use acpi_tables::madt::*;
    let mut t = MADT::new(OEM, TBL, 1, LocalInterruptController::Riscv);
    let mut want: Vec<u8> = Vec::new();
    walk_tl8("MADT(new)", &ser(&t), 44, &want);
    for step in 0..24u32 {
        match step % 6 {
            0 | 1 => { t.add_structure(RINTC::new(HartStatus::Enabled, step as u64, step, step, 0x2800_0000, 0x1000)); want.push(0x18); }
            2 if step == 2 => { t.add_imsic(IMSIC::new(255, 63, 1, 2, 0, 24)); want.push(0x19); }   // one IMSIC per table
            2 => { t.add_structure(IoApic::new(step as u8, 0xfec0_0000, step)); want.push(1); }
            3 => { t.add_structure(APLIC::new(step as u8, *b"RSCV0002", 0, 0, 0xc00_0000, 0x8000, 96)); want.push(0x1a); }
            4 => { t.add_structure(PLIC::new(step as u8, *b"RSCV0001", 64, 7, 0x40_0000, 0xc40_0000, 96)); want.push(0x1b); }
            _ => { t.add_structure(ProcessorLocalApic::new(step as u8, step as u8, EnabledStatus::Enabled)); want.push(0); }
        }
        let b = ser(&t);
        check_table("MADT (RISC-V history)", &b);
        walk_tl8("MADT (RISC-V history)", &b, 44, &want);
    }
    // structures whose second byte is not their size: placeholders and composites
    let mut t = MADT::new(OEM, TBL, 1, LocalInterruptController::Address(0xfee0_0000));
    let mut n = ser(&t).len();
    t.add_structure(Gicd::default()); n += core::mem::size_of::<Gicd>();
    check_table("MADT + default Gicd", &ser(&t)); assert_eq!(ser(&t).len(), n);
    t.add_structure(LapicWithIoApic { lapic: ProcessorLocalApic::new(1, 1, EnabledStatus::Enabled), ioapic: IoApic::new(1, 0xfec0_0000, 0) }); n += 20;
    check_table("MADT + composite structure", &ser(&t)); assert_eq!(ser(&t).len(), n);
    t.add_structure(Gicc::default()); n += core::mem::size_of::<Gicc>();
    check_table("MADT + default Gicc", &ser(&t)); assert_eq!(ser(&t).len(), n);
    t.add_structure(IoApic::new(2, 0xfec0_1000, 24)); n += 12;
    check_table("MADT + IoApic", &ser(&t)); assert_eq!(ser(&t).len(), n);
}
#[test]
fn c01_history_srat() {
    use acpi_tables::*;
    let mut t = srat::SRAT::new(OEM, TBL, 1);
    check_table("SRAT(new)", &ser(&t));
    for i in 0..300u32 {
        match i % 3 {
            0 => t.add_memory_affinity(srat::MemoryAffinity::new(i, (i as u64) << 36, u64::MAX - i as u64).enabled()),
            1 => t.add_generic_initiator(srat::GenericInitiator::new(i, srat::Handle::new_pci(i as u16, i as u8, (i % 32) as u8, (i % 8) as u8)).enabled()),
            _ => t.add_rintc_affinity(srat::RintcAffinity::new([i as u8, 2, 3, 4], i)),
        }
        check_table("SRAT", &ser(&t));
    }
}
#[test]
fn c01_history_pptt() {
    use acpi_tables::*;
    let mut t = pptt::PPTT::new(OEM, TBL, 1);
    check_table("PPTT(new)", &ser(&t));
    for i in 0..300u32 {
        let c = t.add_cache(pptt::CacheNodeBuilder::default().size(i).to_node());
        check_table("PPTT", &ser(&t));
        t.add_processor(pptt::ProcessorNode::new(None, i).add_cache(&c).valid());
        check_table("PPTT", &ser(&t));
    }
}
#[test]
fn c01_history_rhct() {
    use acpi_tables::*;
    let mut t = rhct::RHCT::new(OEM, TBL, 1, 10_000_000);
    check_table("RHCT(new)", &ser(&t));
    let strings: [&'static str; 4] = ["rv64imafdc", "rv64i", "x", "rv64imafdch_zicbom"];
    for i in 0..300u32 {
        match i % 4 {
            0 => { t.add_isa_string(strings[(i / 4) as usize % 4]); }
            1 => { t.add_cmo(rhct::CmoNode::new(6, 6, 6)); }
            2 => t.add_mmu_node(rhct::VirtualAddressScheme::Sv48),
            _ => { let h = t.add_isa_string("rv64"); let c = t.add_cmo(rhct::CmoNode::new(1, 2, 3)); t.add_hart_info(rhct::HartInfoNode::new(i, &h).with_cmo(&c)); }
        }
        let b = ser(&t);
        check_table("RHCT", &b);
    }
}
#[test]
fn c01_history_cedt() {
    use acpi_tables::*;
    let mut t = cedt::CEDT::new(OEM, TBL, 1);
    check_table("CEDT(new)", &ser(&t));
    for i in 0..300u32 {
        match i % 4 {
            0 => t.add_host_bridge(cedt::CxlHostBridge::new(i, cedt::CxlVersion::Cxl2, (i as u64) << 20)),
            1 => t.add_port_association(cedt::PortAssociation::new(i as u16, i as u8, (i % 32) as u8, (i % 8) as u8, cedt::ProtocolType::CxlIo, i as u64)),
            2 => { let mut x = cedt::XorInterleaveMath::new(cedt::InterleaveGranularity::Granularity4kb); for k in 0..(i % 5) { x.add_xormap(k as u64); } t.add_xor_interleave_math(x) }
            _ => { let mut f = cedt::CxlFixedMemory::new(0, 1 << 28, cedt::InterleaveArithmetic::Modulo, cedt::InterleaveGranularity::Granularity256b, cedt::InterleaveWays::Ways2, 1).volatile(); f.add_target(*b"CPU0"); f.add_target(*b"CPU1"); t.add_fixed_memory(f) }
        }
        check_table("CEDT", &ser(&t));
    }
}
#[test]
fn c01_history_hmat() {
    use acpi_tables::*;
    let mut t = hmat::HMAT::new(OEM, TBL, 1);
    check_table("HMAT(new)", &ser(&t));
    for i in 0..40u32 {
        t.add_memory_proximity(hmat::MemoryProximityDomain::new(i, i + 1));
        check_table("HMAT", &ser(&t));
        let mut s = hmat::SystemLocality::new(hmat::LocalityType::Memory, hmat::DataType::ReadBandwidth, hmat::MinTransferSize::Size64b, 10, (i % 3 + 1) as usize, (i % 2 + 1) as usize);
        s.set_entry_value(0, 0, i as u16);
        t.add_system_locality(s);
        check_table("HMAT", &ser(&t));
        let mut c = hmat::MemorySideCache::new(i, 1 << 20, hmat::CacheLevel::Two, hmat::CacheLevel::One, hmat::Associativity::Complex, hmat::WritePolicy::Writethrough, 64);
        for k in 0..(i % 4) { c.add_smbios_handle(k as u16); }
        t.add_memory_side_cache(c);
        check_table("HMAT", &ser(&t));
    }
}
#[test]
fn c01_history_tpm2() {
    use acpi_tables::*;
    let mut t = tpm2::Tpm2::new(OEM, TBL, 1, tpm2::PlatformClass::Server, 0xfed4_0000, tpm2::StartMethod::Crb);
    check_table("TPM2(new)", &ser(&t));
    t.set_log_area(0x1_0000, 0x8000_0000_0000);
    check_table("TPM2(log area)", &ser(&t));
    // a second set_log_area is either refused (leaving the table as it was) or leaves a consistent table
    let before = ser(&t);
    let r = catch_unwind(AssertUnwindSafe(|| { t.set_log_area(0x2_0000, 0x9000_0000_0000); }));
    let after = ser(&t);
    check_table("TPM2(log area set twice)", &after);
    if r.is_err() { assert_eq!(after, before, "a refused set_log_area changed the table"); }
    for class in [tpm2::PlatformClass::Client, tpm2::PlatformClass::Server] {
        for sm in [tpm2::StartMethod::LegacyUse, tpm2::StartMethod::AcpiStart, tpm2::StartMethod::Mmio, tpm2::StartMethod::Crb, tpm2::StartMethod::CrbAndAcpiStart, tpm2::StartMethod::CrbAndSmcHvc, tpm2::StartMethod::I2cFifo] {
            let mut t = tpm2::Tpm2::new(OEM, TBL, 0xffff_ffff, class, u64::MAX, sm);
            check_table("TPM2(new, every class/start method)", &ser(&t));
            t.set_log_area(u32::MAX, u64::MAX);
            check_table("TPM2(log area, every class/start method)", &ser(&t));
        }
    }
    check_table("TCPA client", &ser(&tpm2::TpmClient1_2::new(OEM, TBL, 1, 0xffff_0001, u64::MAX)));
    let s = tpm2::TpmServer1_2::new(OEM, TBL, 1);
    check_table("TCPA server", &ser(&s));
    let s = s.log_area(1, 2); check_table("TCPA server", &ser(&s));
    let s = s.active_low().edge_triggered().sci_gpe(3).gsi(4).bus_is_pnp().pci_sbdf(1, 2, 3, 4); check_table("TCPA server", &ser(&s));
}
#[test]
fn c01_history_fixed() {
    use acpi_tables::*;
    check_table("BERT", &ser(&bert::BERT::new(OEM, TBL, 1, 0x1000, u64::MAX)));
    let f = fadt::FADTBuilder::new(OEM, TBL, 1).dsdt_64(0xabcd_0000_1111).firmware_ctrl_32(7).flag(fadt::Flags::HwReducedAcpi).preferred_pm_profile(fadt::PmProfile::Tablet).finalize();
    check_table("FADT", &ser(&f));
    // the builder's fields are public: whatever they hold when finalize() runs, the table sums to 0
    for preset in [0x01u8, 0x5a, 0x80, 0xff] {
        let mut b = fadt::FADTBuilder::new(OEM, TBL, 0x4237_5689).dsdt_64(0x8000_0000_0000).flag(fadt::Flags::HwReducedAcpi);
        b.checksum = preset;
        check_table("FADT (checksum byte preset before finalize)", &ser(&b.finalize()));
        let mut b = fadt::FADTBuilder::new(OEM, TBL, 1);
        b.checksum = preset;
        let b = b.preferred_pm_profile(fadt::PmProfile::Mobile);
        check_table("FADT (preset, then more builder calls)", &ser(&b.finalize()));
    }
    let r = ser(&rsdp::Rsdp::new(OEM, 0x1234_5678_9abc));
    assert_eq!(r.len(), 36); assert_eq!(bsum(&r[..20]), 0, "RSDP first 20 bytes"); assert_eq!(bsum(&r), 0, "RSDP all 36 bytes"); assert_eq!(le32_at(&r, 20), 36);
    assert_eq!(le32_at(&ser(&facs::FACS::new()), 4), 64);
    check_table("SPCR", &ser(&spcr::SPCR::sbi(OEM, TBL, 1)));
}
#[test]
fn c01_history_rqsc() {
    use acpi_tables::*;
    let mut q = rqsc::RQSC::new(OEM, TBL, 1);
    check_table("RQSC(new)", &ser(&q));
    for i in 0..20u32 {
        let mut c = rqsc::QoSController::new(rqsc::ControllerType::Capacity, gas::GAS::new(gas::AddressSpace::SystemMemory, 64, 0, gas::AccessSize::QwordAccess, 0x1000), i, i, 1);
        for k in 0..(i % 3) { c.add_resource(rqsc::ResourceStructure::new(rqsc::ResourceType::Cache, 0, rqsc::ResourceID::Cache(rqsc::CacheResource::new(k)))); }
        // every kind of resource ID, including short and long vendor-specific blobs
        let rid = match i % 5 {
            0 => rqsc::ResourceID::ACPIDevice(rqsc::ACPIDeviceResource::new(u64::from_le_bytes(*b"ACPI0004"), i)),
            1 => rqsc::ResourceID::VendorSpecific(0x80, vec![0xab; (i as usize * 3) % 20]),
            2 => rqsc::ResourceID::VendorSpecific(0x81, vec![]),
            3 => rqsc::ResourceID::MemoryAffinityStructure(rqsc::MemoryAffinityStructureResource::new(i, 0x1122_3344_5566_7788)),
            _ => rqsc::ResourceID::VendorSpecific(0x82, vec![1, 2, 3, 4, 5, 6, 7, 8, 9, 10, 11, 12, 13, 14, 15, 16]),
        };
        let rs = rqsc::ResourceStructure::new(rqsc::ResourceType::Memory, i as u16, rid);
        let rb = ser(&rs);
        assert_eq!(le16_at(&rb, 2) as usize, rb.len(), "RQSC resource structure (kind {}): Length field vs bytes emitted", i % 5);
        c.add_resource(rs);
        let cb = ser(&c);
        assert_eq!(le16_at(&cb, 2) as usize, cb.len(), "RQSC controller: Length field vs bytes emitted");
        q.add_controller(c);
        check_table("RQSC", &ser(&q));
    }
}

/// generic walker: `hdr` = entry header length, `len_at`/`len_w` = where the length field lives
fn walk(name: &str, b: &[u8], first: usize, len_at: usize, len_w: usize, min: usize) -> Vec<(usize, usize)> {
    let mut o = first;
    let mut v = Vec::new();
    while o < b.len() {
        assert!(o + len_at + len_w <= b.len(), "{}: truncated entry at {}", name, o);
        let l = match len_w { 1 => b[o + len_at] as usize, 2 => le16_at(b, o + len_at) as usize, _ => le32_at(b, o + len_at) as usize };
        assert!(l >= min && o + l <= b.len(), "{}: entry at {} has length {} but the image ends at {}", name, o, l, b.len());
        v.push((o, l));
        o += l;
    }
    assert_eq!(o, b.len(), "{}: walk did not land on the end", name);
    v
}
#[test]
fn c03_table_bodies_are_tiled() {
    use acpi_tables::*;
    let mut t = rhct::RHCT::new(OEM, TBL, 1, 1);
    let mut want = Vec::new();
    let strs: [&'static str; 5] = ["rv64", "rv64i", "x", "", "rv64imafdch"];
    for i in 0..12u32 {
        let h = t.add_isa_string(strs[i as usize % 5]); want.push(0u16);
        let c = t.add_cmo(rhct::CmoNode::new(1, 2, 3)); want.push(1);
        t.add_mmu_node(rhct::VirtualAddressScheme::Sv57); want.push(2);
        let mut hi = rhct::HartInfoNode::new(i, &h); for _ in 0..(i % 3) { hi = hi.with_cmo(&c); }
        t.add_hart_info(hi); want.push(65535);
        let b = ser(&t);
        assert_eq!(le32_at(&b, 52), 56, "RHCT node array offset");
        let es = walk("RHCT", &b, 56, 2, 2, 8);
        assert_eq!(le32_at(&b, 48) as usize, es.len(), "RHCT node count");
        assert_eq!(es.iter().map(|(o, _)| le16_at(&b, *o)).collect::<Vec<_>>(), want, "RHCT node types in insertion order");
        for (o, l) in &es {
            if le16_at(&b, *o) == 0 { let sl = le16_at(&b, o + 6) as usize; assert!(8 + sl <= *l && *l <= 8 + sl + 1 && l % 2 == 0, "ISA node at {}: length {} vs string length {}", o, l, sl); assert_eq!(b[o + 8 + sl - 1], 0, "NUL"); }
            if le16_at(&b, *o) == 65535 { assert_eq!(*l, 12 + 4 * le16_at(&b, o + 6) as usize, "hart info offsets"); }
        }
    }
    let mut t = rimt::RIMT::new(OEM, TBL, 1);
    let io = t.add_iommu(rimt::Iommu::new(1, Some(0x1000), None, Some(2), Some(vec![rimt::InterruptWire::new(1, true, false, 2)])));
    t.add_platform(rimt::Platform::new(2, "dev".to_string(), Some(vec![rimt::IdMapping::new(1, 2, 3, io, true, false, true)])));
    t.add_pcie_root_complex(rimt::PcieRootComplex::new(3, 0, true, true, None));
    t.add_platform(rimt::Platform::new(4, "".to_string(), None));
    let b = ser(&t);
    check_table("RIMT", &b);
    assert_eq!(le32_at(&b, 40), 48, "RIMT device offset");
    let es = walk("RIMT", &b, 48, 2, 2, 4);
    assert_eq!(le32_at(&b, 36) as usize, es.len(), "RIMT device count");
    assert_eq!(es.iter().map(|(o, _)| b[*o]).collect::<Vec<_>>(), vec![0, 2, 1, 2]);
    assert_eq!(le16_at(&b, es[0].0 + 28), 1, "wire count"); assert_eq!(le16_at(&b, es[0].0 + 30), 32, "wire offset"); assert_eq!(es[0].1, 40);
    let p = es[1].0; assert_eq!(le16_at(&b, p + 8) as usize, 12 + 3 + 1, "platform id-mapping offset"); assert_eq!(le16_at(&b, p + 10), 1); assert_eq!(es[1].1, 16 + 20);
    let mut t = viot::VIOT::new(OEM, TBL, 1);
    let h = t.add_virtio_pci_iommu(viot::VirtIoPciIommu::new(viot::PciDevice::new(0, 1, 2, 3)));
    t.add_pci_range(viot::PciRange::new(viot::PciDevice::new(0, 0, 0, 0), viot::PciDevice::new(0, 0xff, 31, 7), &h));
    t.add_mmio_endpoint(viot::MmioEndpoint::new(9, 0x1000, &h));
    t.add_virtio_mmio_iommu(viot::VirtIoMmioIommu::new(0x2000));
    let b = ser(&t);
    check_table("VIOT", &b);
    assert_eq!(le16_at(&b, 38), 48, "VIOT node offset");
    let es = walk("VIOT", &b, 48, 2, 2, 4);
    assert_eq!(le16_at(&b, 36) as usize, es.len(), "VIOT node count");
    assert_eq!(es.iter().map(|(o, _)| b[*o]).collect::<Vec<_>>(), vec![3, 1, 2, 4]);
    let mut t = hmat::HMAT::new(OEM, TBL, 1);
    t.add_memory_proximity(hmat::MemoryProximityDomain::new(1, 2));
    t.add_system_locality(hmat::SystemLocality::new(hmat::LocalityType::Memory, hmat::DataType::AccessLatency, hmat::MinTransferSize::SizeByteAligned, 1, 2, 3));
    let mut c = hmat::MemorySideCache::new(1, 2, hmat::CacheLevel::One, hmat::CacheLevel::One, hmat::Associativity::None, hmat::WritePolicy::None, 64); c.add_smbios_handle(1); c.add_smbios_handle(2); c.add_smbios_handle(3);
    t.add_memory_side_cache(c);
    let b = ser(&t);
    check_table("HMAT", &b);
    let es = walk("HMAT", &b, 40, 4, 4, 8);
    assert_eq!(es.iter().map(|(o, _)| le16_at(&b, *o)).collect::<Vec<_>>(), vec![0, 1, 2]);
    assert_eq!(es[1].1, 32 + 4 * 2 + 4 * 3 + 2 * 6); assert_eq!(le32_at(&b, es[1].0 + 12), 2); assert_eq!(le32_at(&b, es[1].0 + 16), 3);
    assert_eq!(le16_at(&b, es[2].0 + 30), 3); assert_eq!(es[2].1, 32 + 6);
    let mut t = pptt::PPTT::new(OEM, TBL, 1);
    let c = t.add_cache(pptt::CacheNodeBuilder::default().size(1).to_node());
    let p = t.add_processor(pptt::ProcessorNode::new(None, 1).add_cache(&c).add_cache(&c));
    t.add_processor(pptt::ProcessorNode::new(Some(&p), 2));
    let b = ser(&t);
    check_table("PPTT", &b);
    let es = walk("PPTT", &b, 36, 1, 1, 2);
    assert_eq!(es.iter().map(|(o, l)| (b[*o], *l)).collect::<Vec<_>>(), vec![(1, 28), (0, 28), (0, 20)]);
    assert_eq!(le32_at(&b, es[1].0 + 16), 2, "private resource count");
    let mut t = hest::HEST::new(OEM, TBL, 1);
    t.add_structure(hest::PcieAerRootPort::new_global()); t.add_structure(hest::PcieAerDevice::new_global()); t.add_structure(hest::PcieAerBridge::new_global());
    t.add_structure(hest::GenericHardwareSource::new(1, hest::EnabledStatus::Enabled)); t.add_structure(hest::GenericHardwareSourceV2::new(2, hest::EnabledStatus::Disabled));
    let b = ser(&t);
    check_table("HEST", &b);
    assert_eq!(le32_at(&b, 36), 5, "HEST source count");
    let mut o = 40; let mut seen = Vec::new();
    while o < b.len() { let ty = le16_at(&b, o); seen.push(ty); o += match ty { 6 => 48, 7 => 44, 8 => 56, 9 => 64, 10 => 92, _ => panic!("HEST: unknown type {} at {}", ty, o) }; }
    assert_eq!(o, b.len(), "HEST walk by the specification's sizes"); assert_eq!(seen, vec![6, 7, 8, 9, 10]);
    let mut t = slit::SLIT::new(OEM, TBL, 1, 3);
    t.set_distance(0, 2, 33);
    let b = ser(&t);
    check_table("SLIT", &b); assert_eq!(le64_at(&b, 36), 3); assert_eq!(b.len(), 44 + 9);
    let m = ser(&madt::MADT::new(OEM, TBL, 1, madt::LocalInterruptController::Riscv));
    assert_eq!(m.len(), 44);
}

#[test]
fn c04_entries_decode_to_the_callers_values() {
    {
        // generic address structures: space id, bit width and access size follow the caller's register type
        use acpi_tables::sdt::GenericAddress as GA;
        use zerocopy::IntoBytes;
        fn want(space: u8, bits: u8, acc: u8, addr: u64) -> Vec<u8> { let mut v = vec![space, bits, 0, acc]; v.extend_from_slice(&addr.to_le_bytes()); v }
        for a in [0u16, 0xcf8, 0xffff] {
            assert_eq!(GA::io_port_address::<u8>(a).as_bytes(), &want(1, 8, 1, a as u64)[..], "io_port_address::<u8>({:#x})", a);
            assert_eq!(GA::io_port_address::<u16>(a).as_bytes(), &want(1, 16, 2, a as u64)[..], "io_port_address::<u16>({:#x})", a);
            assert_eq!(GA::io_port_address::<u32>(a).as_bytes(), &want(1, 32, 3, a as u64)[..], "io_port_address::<u32>({:#x})", a);
            assert_eq!(GA::io_port_address::<u64>(a).as_bytes(), &want(1, 64, 4, a as u64)[..], "io_port_address::<u64>({:#x})", a);
        }
        for a in [0u64, 0xfed4_0000, u64::MAX] {
            assert_eq!(GA::mmio_address::<u8>(a).as_bytes(), &want(0, 8, 1, a)[..], "mmio_address::<u8>({:#x})", a);
            assert_eq!(GA::mmio_address::<u16>(a).as_bytes(), &want(0, 16, 2, a)[..], "mmio_address::<u16>({:#x})", a);
            assert_eq!(GA::mmio_address::<u32>(a).as_bytes(), &want(0, 32, 3, a)[..], "mmio_address::<u32>({:#x})", a);
            assert_eq!(GA::mmio_address::<u64>(a).as_bytes(), &want(0, 64, 4, a)[..], "mmio_address::<u64>({:#x})", a);
        }
    }
    use acpi_tables::*;
    for &a in &U64S { for &l in &[1u64, u64::MAX, 0x8000_0000_0000_0001] { for &pd in &U32S {
        let b = ser(&srat::MemoryAffinity::new(pd, a, l).hotpluggable());
        assert_eq!(b.len(), 40); assert_eq!((b[0], b[1]), (1, 40)); assert_eq!(le32_at(&b, 2), pd); assert_eq!(le16_at(&b, 6), 0);
        assert_eq!(le64_at(&b, 8), a, "base address {:#x}", a); assert_eq!(le64_at(&b, 16), l, "length {:#x}", l);
        assert_eq!(le32_at(&b, 24), 0); assert_eq!(le32_at(&b, 28), 2); assert_eq!(le64_at(&b, 32), 0);
    } } }
    let b = ser(&srat::GenericInitiator::new(0xdead_beef, srat::Handle::new_pci(0xabcd, 0xef, 31, 7)).architectural());
    assert_eq!((b[0], b[1], b[2], b[3]), (5, 32, 0, 1)); assert_eq!(le32_at(&b, 4), 0xdead_beef); assert_eq!(le16_at(&b, 8), 0xabcd); assert_eq!(b[10], 0xef); assert_eq!(b[11], (31 << 3) | 7);
    assert!(b[12..24].iter().all(|x| *x == 0)); assert_eq!(le32_at(&b, 24), 2); assert_eq!(le32_at(&b, 28), 0);
    let b = ser(&srat::GenericInitiator::new(1, srat::Handle::new_acpi(*b"ACPI0001", [9, 8, 7, 6])));
    assert_eq!(b[3], 0); assert_eq!(&b[8..16], b"ACPI0001"); assert_eq!(&b[16..20], &[9, 8, 7, 6]); assert_eq!(le32_at(&b, 20), 0);
    let b = ser(&srat::RintcAffinity::new([1, 2, 3, 4], 0x5566_7788).proximity_domain(0x99aa_bbcc).enabled());
    assert_eq!((b[0], b[1]), (7, 20)); assert_eq!(le32_at(&b, 4), 0x99aa_bbcc); assert_eq!(&b[8..12], &[1, 2, 3, 4]); assert_eq!(le32_at(&b, 12), 1); assert_eq!(le32_at(&b, 16), 0x5566_7788);
    for &v in &U64S {
        let b = ser(&viot::MmioEndpoint::new(v as u32, v, &{ let mut t = viot::VIOT::new(OEM, TBL, 1); t.add_virtio_mmio_iommu(viot::VirtIoMmioIommu::new(v)) }));
        assert_eq!((b[0], b[1]), (2, 0)); assert_eq!(le16_at(&b, 2), 24); assert_eq!(le32_at(&b, 4), v as u32); assert_eq!(le64_at(&b, 8), v); assert_eq!(le16_at(&b, 16), 48); assert!(b[18..24].iter().all(|x| *x == 0));
        let b = ser(&viot::VirtIoMmioIommu::new(v)); assert_eq!((b[0], b[1], le16_at(&b, 2), le32_at(&b, 4)), (4, 0, 16, 0)); assert_eq!(le64_at(&b, 8), v);
        let b = ser(&cedt::CxlHostBridge::new(v as u32, cedt::CxlVersion::Cxl1_1, v)); assert_eq!(le32_at(&b, 4), v as u32); assert_eq!(le32_at(&b, 8), 0); assert_eq!(le32_at(&b, 12), 0); assert_eq!(le64_at(&b, 16), v); assert_eq!(le64_at(&b, 24), 0x2000);
        let b = ser(&cedt::PortAssociation::new(v as u16, v as u8, (v % 32) as u8, (v % 8) as u8, cedt::ProtocolType::CxlMem, v));
        assert_eq!(b[0], 3); assert_eq!(le16_at(&b, 2) as usize, b.len()); assert_eq!(le16_at(&b, 4), v as u16); assert_eq!(le16_at(&b, 6), ((v as u8 as u16) << 8) | (((v % 32) as u16) << 3) | (v % 8) as u16); assert_eq!(b[8], 1); assert_eq!(le64_at(&b, 9), v);
        let mut f = cedt::CxlFixedMemory::new(v, !v, cedt::InterleaveArithmetic::ModuloXor, cedt::InterleaveGranularity::Granularity16kb, cedt::InterleaveWays::Ways3, v as u16).persistent();
        f.add_target(*b"AAA0"); f.add_target(*b"BBB1"); f.add_target(*b"CCC2");
        let b = ser(&f);
        assert_eq!((b[0], b[1]), (1, 0)); assert_eq!(le16_at(&b, 2) as usize, b.len()); assert_eq!(b.len(), 36 + 12); assert_eq!(le32_at(&b, 4), 0); assert_eq!(le64_at(&b, 8), v); assert_eq!(le64_at(&b, 16), !v);
        assert_eq!((b[24], b[25], le16_at(&b, 26), le32_at(&b, 28), le16_at(&b, 32), le16_at(&b, 34)), (8, 1, 0, 6, 8, v as u16)); assert_eq!(&b[36..], b"AAA0BBB1CCC2");
        let b = ser(&rimt::Iommu::new(v as u16, Some(v), Some(rimt::PciDevice::new(v as u16, v as u8, 31, 7)), Some(v as u32), None));
        assert_eq!((b[0], b[1], le16_at(&b, 2)), (0, 1, 32)); assert_eq!(le16_at(&b, 4), v as u16); assert_eq!(le16_at(&b, 6), 0); assert_eq!(le64_at(&b, 8), v); assert_eq!(le32_at(&b, 16), 3);
        assert_eq!(le16_at(&b, 20), v as u16); assert_eq!(le16_at(&b, 22), ((v as u8 as u16) << 8) | (31 << 3) | 7); assert_eq!(le32_at(&b, 24), v as u32); assert_eq!(le16_at(&b, 28), 0); assert_eq!(le16_at(&b, 30), 32);
        let mut s = hmat::SystemLocality::new(hmat::LocalityType::ThirdLevelCache, hmat::DataType::WriteBandwidth, hmat::MinTransferSize::Size64k, v, 2, 2);
        s.set_initiator_value(1, v as u32); s.set_target_value(0, !v as u32); s.set_entry_value(1, 0, v as u16);
        let b = ser(&s);
        assert_eq!((le16_at(&b, 0), le16_at(&b, 2), b[8], b[9], b[10], b[11]), (1, 0, 3, 5, 11, 0)); assert_eq!(le64_at(&b, 24), v); assert_eq!(le32_at(&b, 36), v as u32); assert_eq!(le32_at(&b, 40), !v as u32); assert_eq!(le16_at(&b, 48 + 4), v as u16);
        let b = ser(&xsdt_one(v)); assert_eq!(le64_at(&b, 36), v);
    }
    let mut t = mcfg::MCFG::new(OEM, TBL, 1); t.add_ecam(0xe000_0000_1234, 0xabcd, 3, 250);
    let b = ser(&t); assert_eq!(le64_at(&b, 36), 0); assert_eq!(le64_at(&b, 44), 0xe000_0000_1234); assert_eq!(le16_at(&b, 52), 0xabcd); assert_eq!((b[54], b[55]), (3, 250)); assert_eq!(le32_at(&b, 56), 0);
    let f = fadt::FADTBuilder::new(OEM, TBL, 9).dsdt_32(0x1111_2222).firmware_ctrl_64(0x3333_4444_5555).acpi_enable().gpe_info(1, 2, 3, 4, 5).finalize();
    let b = ser(&f);
    assert_eq!(&b[0..4], b"FACP"); assert_eq!(le32_at(&b, 4), 276); assert_eq!(b[8], 6); assert_eq!(le32_at(&b, 36), 0, "FIRMWARE_CTRL cleared by the 64-bit setter"); assert_eq!(le32_at(&b, 40), 0x1111_2222, "DSDT kept");
    assert_eq!((b[52], b[53]), (1, 0)); assert_eq!((le32_at(&b, 80), le32_at(&b, 84), b[92], b[93], b[94]), (1, 2, 3, 4, 5)); assert_eq!(le64_at(&b, 132), 0x3333_4444_5555); assert_eq!(le64_at(&b, 140), 0);
    // each pointer pair: the last setter wins, the other form is cleared, in either order
    let b = ser(&fadt::FADTBuilder::new(OEM, TBL, 9).dsdt_64(0x1_2345_6789).dsdt_32(0x4242).finalize());
    assert_eq!(le32_at(&b, 40), 0x4242, "DSDT after dsdt_64 then dsdt_32"); assert_eq!(le64_at(&b, 140), 0, "X_DSDT cleared by the 32-bit setter");
    let b = ser(&fadt::FADTBuilder::new(OEM, TBL, 9).firmware_ctrl_64(0x1_2345_6789).firmware_ctrl_32(0x4343).finalize());
    assert_eq!(le32_at(&b, 36), 0x4343, "FIRMWARE_CTRL after firmware_ctrl_64 then firmware_ctrl_32"); assert_eq!(le64_at(&b, 132), 0, "X_FIRMWARE_CTRL cleared by the 32-bit setter");
    let b = ser(&fadt::FADTBuilder::new(OEM, TBL, 9).dsdt_32(0x4242).dsdt_64(0x1_2345_6789).finalize());
    assert_eq!(le32_at(&b, 40), 0); assert_eq!(le64_at(&b, 140), 0x1_2345_6789);
    // RQSC ACPI-device resource: Resource ID 1 is the full 64-bit _HID, Resource ID 2 the 32-bit _UID
    let hid = u64::from_le_bytes(*b"ACPI0004");
    let rs = rqsc::ResourceStructure::new(rqsc::ResourceType::Memory, 0x0102, rqsc::ResourceID::ACPIDevice(rqsc::ACPIDeviceResource::new(hid, 0xdead_beef)));
    let b = ser(&rs);
    assert_eq!(le16_at(&b, 2) as usize, b.len(), "RQSC resource length"); assert_eq!(le16_at(&b, 4), 0x0102);
    assert_eq!(&b[8..16], b"ACPI0004", "RQSC ACPI device resource: all eight _HID bytes"); assert_eq!(le32_at(&b, 16), 0xdead_beef);
    let f = fadt::FADTBuilder::new(OEM, TBL, 9).firmware_ctrl_32(7).dsdt_64(0x9999_0000_0000).firmware_ctrl_32(8).finalize();
    let b = ser(&f); assert_eq!(le32_at(&b, 36), 8); assert_eq!(le64_at(&b, 132), 0); assert_eq!(le32_at(&b, 40), 0); assert_eq!(le64_at(&b, 140), 0x9999_0000_0000);
    let b = ser(&gas::GAS::new_pci_config(32, gas::AccessSize::DwordAccess, 31, 7, 0xfffc)); assert_eq!((b[0], b[1], b[2], b[3]), (2, 32, 0, 3)); assert_eq!(le64_at(&b, 4), (31u64 << 32) | (7 << 16) | 0xfffc);
    // RHCT ISA string node (RISC-V RHCT spec table 3): type 0, length (padded to 2), revision 1,
    // ISA length = strlen + NUL (the alignment pad is not counted), string, NUL, optional pad
    for n in 1..=40usize {
        let isa: String = "rv64imafdcvh_zicbom_zicbop_zicboz_zihintpause_sstc".chars().take(n).collect();
        let mut t = rhct::RHCT::new(OEM, TBL, 1, 0x1234_5678_9abc);
        let leaked: &'static str = Box::leak(isa.clone().into_boxed_str());
        t.add_isa_string(leaked);
        let b = ser(&t);
        check_table("RHCT+ISA", &b);
        assert_eq!(le32_at(&b, 36), 0); assert_eq!(le64_at(&b, 40), 0x1234_5678_9abc); assert_eq!(le32_at(&b, 48), 1, "node count"); assert_eq!(le32_at(&b, 52), 56, "node offset");
        let o = 56;
        let padded = (8 + n + 1 + 1) / 2 * 2;
        assert_eq!(le16_at(&b, o), 0); assert_eq!(le16_at(&b, o + 2) as usize, padded, "ISA node length for a {}-character string", n); assert_eq!(le16_at(&b, o + 4), 1);
        assert_eq!(le16_at(&b, o + 6) as usize, n + 1, "ISA length field for a {}-character string", n);
        assert_eq!(&b[o + 8..o + 8 + n], isa.as_bytes()); assert!(b[o + 8 + n..].iter().all(|x| *x == 0)); assert_eq!(b.len(), o + padded);
    }
}
fn xsdt_one(v: u64) -> acpi_tables::xsdt::XSDT { let mut t = acpi_tables::xsdt::XSDT::new(OEM, TBL, 1); t.add_entry(v); t }

/// C02/C03/C05: RIMT platform devices with awkward names (empty, NUL-terminated, every length mod 4):
/// device Length, ID-mapping offset, table Length and the handles of later IOMMUs all agree with the bytes
#[test]
fn c03_rimt_platform_names() {
    use acpi_tables::*;
    let names = ["", "a", "ab", "abc", "abcd", "DEV0", "\\_SB.DEV0", "\0", "ab\0", "DEV0\0", "\\_SB.DEV0\0", "a\0b", "\0\0"];
    let mut t = rimt::RIMT::new(OEM, TBL, 1);
    let io0 = t.add_iommu(rimt::Iommu::new(0, None, None, None, None));
    let mut ios = vec![io0];
    for (i, n) in names.iter().enumerate() {
        let maps: Vec<rimt::IdMapping> = ios.iter().enumerate().map(|(k, io)| rimt::IdMapping::new(k as u32, k as u32, 1, *io, false, false, false)).collect();
        let p = rimt::Platform::new(100 + i as u16, n.to_string(), if i % 2 == 0 { Some(maps) } else { None });
        let pb = ser(&p);
        assert_eq!(le16_at(&pb, 2) as usize, pb.len(), "platform device named {:?}: Length field vs bytes emitted", n);
        assert_eq!(&pb[12..12 + n.len()], n.as_bytes(), "platform device name bytes"); assert_eq!(pb[12 + n.len()], 0, "name terminator");
        if i % 2 == 0 { assert_eq!(le16_at(&pb, 8) as usize, 12 + n.len() + 1, "ID mapping array offset after the name {:?} and its terminator", n); assert_eq!(pb.len(), 12 + n.len() + 1 + 20 * ios.len()); }
        t.add_platform(p);
        ios.push(t.add_iommu(rimt::Iommu::new(200 + i as u16, None, None, None, None)));
        let b = ser(&t);
        check_table("RIMT (platform names)", &b);
        let es = walk("RIMT", &b, 48, 2, 2, 4);
        let iommus: Vec<usize> = es.iter().filter(|(o, _)| b[*o] == 0).map(|(o, _)| *o).collect();
        assert_eq!(iommus.len(), ios.len());
        // the IOMMU just added is the last device, and the mapping built from its handle (next round) must point at it
        let maps: Vec<rimt::IdMapping> = vec![rimt::IdMapping::new(0, 0, 1, *ios.last().unwrap(), false, false, false)];
        let probe = ser(&rimt::Platform::new(1, "p".to_string(), Some(maps)));
        assert_eq!(le32_at(&probe, 14 + 12) as usize, *iommus.last().unwrap(), "handle of the IOMMU added after platform {:?} vs its offset in the image", n);
    }
}
/// C05: offsets that need more than 16 bits (RIMT references are 4 bytes wide)
#[test]
fn c05_rimt_offsets_beyond_16_bits() {
    use acpi_tables::*;
    let mut t = rimt::RIMT::new(OEM, TBL, 1);
    let io_small = t.add_iommu(rimt::Iommu::new(1, None, None, None, None));
    t.add_platform(rimt::Platform::new(2, "a".repeat(40000), None));
    t.add_platform(rimt::Platform::new(3, "b".repeat(40001), None));
    let io_big = t.add_iommu(rimt::Iommu::new(4, None, None, None, None));
    t.add_platform(rimt::Platform::new(5, "x".to_string(), Some(vec![rimt::IdMapping::new(0, 0, 1, io_big, false, false, false), rimt::IdMapping::new(1, 1, 1, io_small, false, false, false)])));
    let b = ser(&t);
    check_table("RIMT (large)", &b);
    let es = walk("RIMT", &b, 48, 2, 2, 4);
    let iommus: Vec<usize> = es.iter().filter(|(o, _)| b[*o] == 0).map(|(o, _)| *o).collect();
    assert_eq!(iommus.len(), 2);
    assert!(iommus[1] > 65536, "second IOMMU lies beyond 64 KiB (at {})", iommus[1]);
    let (o, _) = es[es.len() - 1];
    assert_eq!(b[o], 2, "last device is the platform device");
    let (moff, n) = (le16_at(&b, o + 8) as usize, le16_at(&b, o + 10) as usize);
    assert_eq!(n, 2);
    assert_eq!(le32_at(&b, o + moff + 12) as usize, iommus[1], "id mapping 0 references the IOMMU added at offset {}", iommus[1]);
    assert_eq!(le32_at(&b, o + moff + 20 + 12) as usize, iommus[0], "id mapping 1 references the first IOMMU");
    assert_eq!(le16_at(&b, iommus[1] + 4), 4, "the referenced device is IOMMU id 4");
}
#[test]
fn c05_handles_are_offsets_of_their_nodes() {
    use acpi_tables::*;
    let mut t = pptt::PPTT::new(OEM, TBL, 1);
    let mut hs = Vec::new();
    let c0 = t.add_cache(pptt::CacheNodeBuilder::default().size(1).to_node());
    let c1 = t.add_cache(pptt::CacheNodeBuilder::default().size(2).next_level(&c0).to_node());
    let p0 = t.add_processor(pptt::ProcessorNode::new(None, 10).add_cache(&c1));
    let p1 = t.add_processor(pptt::ProcessorNode::new(Some(&p0), 11).add_cache(&c0).add_cache(&c1));
    let c2 = t.add_cache(pptt::CacheNodeBuilder::default().size(3).next_level(&c1).to_node());
    let p2 = t.add_processor(pptt::ProcessorNode::new(Some(&p1), 12).add_cache(&c2));
    let _ = p2;
    let b = ser(&t);
    let es = walk("PPTT", &b, 36, 1, 1, 2);
    let starts: Vec<usize> = es.iter().map(|(o, _)| *o).collect();
    for (o, l) in &es {
        if b[*o] == 0 {
            let parent = le32_at(&b, o + 8) as usize;
            if parent != 0 { assert!(starts.contains(&parent) && b[parent] == 0, "PPTT node at {}: parent {} is not the start of a processor node", o, parent); }
            for k in 0..le32_at(&b, o + 16) as usize { let r = le32_at(&b, o + 20 + 4 * k) as usize; assert!(starts.contains(&r) && b[r] == 1, "PPTT node at {}: resource {} is not the start of a cache node", o, r); }
            hs.push(*l);
        } else { let nx = le32_at(&b, o + 8) as usize; if nx != 0 { assert!(starts.contains(&nx) && b[nx] == 1, "cache at {}: next level {}", o, nx); } }
    }
    let mut t = rhct::RHCT::new(OEM, TBL, 1, 1);
    t.add_mmu_node(rhct::VirtualAddressScheme::Sv39);
    let i0 = t.add_isa_string("rv64i");
    t.add_hart_info(rhct::HartInfoNode::new(0, &i0));
    let c0 = t.add_cmo(rhct::CmoNode::new(1, 1, 1));
    let i1 = t.add_isa_string("rv64imafdc_zicbom_zicboz");
    t.add_hart_info(rhct::HartInfoNode::new(1, &i1).with_cmo(&c0));
    t.add_hart_info(rhct::HartInfoNode::new(2, &i0).with_cmo(&c0));
    // handles taken after hart-info nodes of both sizes (16 and 20 bytes) and after odd/even strings
    let i2 = t.add_isa_string("rv64imafdc");
    let c1 = t.add_cmo(rhct::CmoNode::new(2, 3, 4));
    t.add_hart_info(rhct::HartInfoNode::new(3, &i2).with_cmo(&c1));
    t.add_mmu_node(rhct::VirtualAddressScheme::Sv48);
    let i3 = t.add_isa_string("rv64imafdcv");
    t.add_hart_info(rhct::HartInfoNode::new(4, &i3));
    let c2 = t.add_cmo(rhct::CmoNode::new(5, 6, 7));
    t.add_hart_info(rhct::HartInfoNode::new(5, &i3).with_cmo(&c2));
    // the same ISA string added again is a node of its own, and its handle names that node
    let i3b = t.add_isa_string("rv64imafdcv");
    let c3 = t.add_cmo(rhct::CmoNode::new(8, 9, 10));
    t.add_hart_info(rhct::HartInfoNode::new(6, &i3b).with_cmo(&c3));
    let isa_dup_at = { let img = ser(&t); let es0 = walk("RHCT", &img, 56, 2, 2, 8); es0[es0.len() - 3].0 };   // the node added by the second add_isa_string
    // two CMO references on one hart: both appear, in order
    t.add_hart_info(rhct::HartInfoNode::new(7, &i0).with_cmo(&c0).with_cmo(&c3));
    let b = ser(&t);
    check_table("RHCT (handles)", &b);
    let es = walk("RHCT", &b, 56, 2, 2, 8);
    let starts: Vec<usize> = es.iter().map(|(o, _)| *o).collect();
    // each hart's references resolve to *its own* ISA string / CMO node, not merely to some node
    let want: [(u32, &str, Option<[u8; 3]>); 8] = [(0, "rv64i", None), (1, "rv64imafdc_zicbom_zicboz", Some([1, 1, 1])), (2, "rv64i", Some([1, 1, 1])),
                                                   (3, "rv64imafdc", Some([2, 3, 4])), (4, "rv64imafdcv", None), (5, "rv64imafdcv", Some([5, 6, 7])),
                                                   (6, "rv64imafdcv", Some([8, 9, 10])), (7, "rv64i", Some([1, 1, 1]))];
    let mut harts = 0;
    for (o, _) in &es {
        if le16_at(&b, *o) != 65535 { continue; }
        let (uid, isa, cmo) = want[harts]; harts += 1;
        assert_eq!(le32_at(&b, o + 8), uid, "hart info order");
        let r = le32_at(&b, o + 12) as usize;
        assert!(r + 8 + isa.len() <= b.len() && le16_at(&b, r) == 0, "hart {}: ISA offset {} is not an ISA string node", uid, r);
        assert_eq!(le16_at(&b, r + 6) as usize, isa.len() + 1, "hart {}: ISA offset {} names a different ISA node", uid, r);
        assert_eq!(&b[r + 8..r + 8 + isa.len()], isa.as_bytes(), "hart {}: ISA offset {} names a different ISA node", uid, r);
        if uid == 6 { assert_eq!(r, isa_dup_at, "hart 6 was built from the handle of the second \"rv64imafdcv\" node (at {}), the image references {}", isa_dup_at, r); }
        if uid == 7 {
            assert_eq!(le16_at(&b, o + 6), 3, "hart 7: ISA offset + two CMO offsets");
            let r2 = le32_at(&b, o + 20) as usize;
            assert!(r2 + 10 <= b.len() && le16_at(&b, r2) == 1 && b[r2 + 7..r2 + 10] == [8, 9, 10], "hart 7: second CMO offset {} is not the (8, 9, 10) CMO node", r2);
        } else {
        assert_eq!(le16_at(&b, o + 6) as usize, 1 + cmo.is_some() as usize, "hart {}: number of offsets", uid);
        }
        if let Some(c) = cmo {
            let r = le32_at(&b, o + 16) as usize;
            assert!(r + 10 <= b.len() && le16_at(&b, r) == 1, "hart {}: CMO offset {} is not a CMO node", uid, r);
            assert_eq!(&b[r + 7..r + 10], &c[..], "hart {}: CMO offset {} names a different CMO node", uid, r);
        }
    }
    assert_eq!(harts, 8);
    for (o, _) in &es { if le16_at(&b, *o) == 65535 { let n = le16_at(&b, o + 6) as usize; for k in 0..n { let r = le32_at(&b, o + 12 + 4 * k) as usize; assert!(starts.contains(&r), "hart info at {}: offset {} is not the start of a node", o, r); assert_eq!(le16_at(&b, r), if k == 0 { 0 } else { 1 }, "hart info at {}: offset {} has the wrong node type", o, r); } } }
    let mut t = rimt::RIMT::new(OEM, TBL, 1);
    t.add_platform(rimt::Platform::new(1, "a".to_string(), None));
    let io0 = t.add_iommu(rimt::Iommu::new(1, None, None, None, Some(vec![rimt::InterruptWire::new(1, false, false, 0), rimt::InterruptWire::new(2, true, true, 1)])));
    t.add_pcie_root_complex(rimt::PcieRootComplex::new(2, 0, false, false, Some(vec![rimt::IdMapping::new(0, 0, 1, io0, false, false, false)])));
    t.add_platform(rimt::Platform::new(3, "longer name".to_string(), Some(vec![rimt::IdMapping::new(0, 0, 1, io0, false, false, false)])));
    let io1 = t.add_iommu(rimt::Iommu::new(4, None, None, None, None));
    t.add_platform(rimt::Platform::new(5, "x".to_string(), Some(vec![rimt::IdMapping::new(0, 0, 1, io1, false, false, false), rimt::IdMapping::new(1, 1, 1, io0, false, false, false)])));
    let b = ser(&t);
    let es = walk("RIMT", &b, 48, 2, 2, 4);
    let starts: Vec<usize> = es.iter().map(|(o, _)| *o).collect();
    for (o, _) in &es {
        let (moff, n) = match b[*o] { 1 => (le16_at(&b, o + 12) as usize, le16_at(&b, o + 14) as usize), 2 => (le16_at(&b, o + 8) as usize, le16_at(&b, o + 10) as usize), _ => (0, 0) };
        for k in 0..n { let r = le32_at(&b, o + moff + 20 * k + 12) as usize; assert!(starts.contains(&r) && b[r] == 0, "RIMT device at {}: id mapping {} references offset {} which is not the start of an IOMMU device", o, k, r); }
    }
    let mut t = viot::VIOT::new(OEM, TBL, 1);
    t.add_mmio_endpoint(viot::MmioEndpoint::new(1, 2, &{ let mut x = viot::VIOT::new(OEM, TBL, 1); x.add_virtio_mmio_iommu(viot::VirtIoMmioIommu::new(0)) }));
    let h0 = t.add_virtio_mmio_iommu(viot::VirtIoMmioIommu::new(0x1000));
    t.add_pci_range(viot::PciRange::new(viot::PciDevice::new(0, 0, 0, 0), viot::PciDevice::new(0, 1, 0, 0), &h0));
    t.add_mmio_endpoint(viot::MmioEndpoint::new(2, 3, &h0));
    let h1 = t.add_virtio_pci_iommu(viot::VirtIoPciIommu::new(viot::PciDevice::new(0, 2, 0, 0)));
    t.add_mmio_endpoint(viot::MmioEndpoint::new(3, 4, &h1));
    t.add_pci_range(viot::PciRange::new(viot::PciDevice::new(1, 0, 0, 0), viot::PciDevice::new(1, 1, 0, 0), &h1));
    let b = ser(&t);
    let es = walk("VIOT", &b, 48, 2, 2, 4);
    let starts: Vec<usize> = es.iter().map(|(o, _)| *o).collect();
    for (i, (o, _)) in es.iter().enumerate() {
        if i == 0 { continue; }
        let out = match b[*o] { 1 => Some(le16_at(&b, o + 16) as usize), 2 => Some(le16_at(&b, o + 16) as usize), _ => None };
        if let Some(r) = out { assert!(starts.contains(&r) && (b[r] == 3 || b[r] == 4), "VIOT node at {} references offset {} which is not the start of a translation node", o, r); }
    }
}

#[test]
fn c11_option_builders_are_independent() {
    use acpi_tables::*;
    // FADT preferred PM profile: the byte holds exactly the selected profile's code
    for (p, code) in [(fadt::PmProfile::Unspecified, 0u8), (fadt::PmProfile::Desktop, 1), (fadt::PmProfile::Mobile, 2), (fadt::PmProfile::Workstation, 3), (fadt::PmProfile::EnterpriseServer, 4),
                      (fadt::PmProfile::SohoServer, 5), (fadt::PmProfile::AppliancePc, 6), (fadt::PmProfile::PerformanceServer, 7), (fadt::PmProfile::Tablet, 8)] {
        let b = ser(&fadt::FADTBuilder::new(OEM, TBL, 1).preferred_pm_profile(p).finalize());
        assert_eq!(b[45], code, "FADT preferred PM profile code");
        let b = ser(&fadt::FADTBuilder::new(OEM, TBL, 1).preferred_pm_profile(fadt::PmProfile::Desktop).flag(fadt::Flags::HwReducedAcpi).preferred_pm_profile(p).finalize());
        assert_eq!(b[45], code, "FADT preferred PM profile code (selected last)");
    }
    // SRAT RINTC affinity: the enabled flag and the proximity domain are independent, in either order
    {
        let a = ser(&srat::RintcAffinity::new([1, 2, 3, 4], 9).enabled().proximity_domain(0x1122_3344));
        let b = ser(&srat::RintcAffinity::new([1, 2, 3, 4], 9).proximity_domain(0x1122_3344).enabled());
        assert_eq!(a, b, "RINTC affinity: enabled() then proximity_domain() vs the reverse order");
        let c = ser(&srat::RintcAffinity::new([1, 2, 3, 4], 9).proximity_domain(0x1122_3344));
        let d: Vec<usize> = (0..a.len()).filter(|i| a[*i] != c[*i]).collect();
        assert_eq!(d.len(), 1, "enabled() changes exactly one byte (changed: {:?})", d);
        assert_eq!(a[d[0]] ^ c[d[0]], 1, "enabled() sets bit 0 of the flags");
        let e = ser(&srat::RintcAffinity::new([1, 2, 3, 4], 9).enabled().proximity_domain(5).proximity_domain(0x1122_3344).enabled());
        assert_eq!(e, a, "repeated option calls");
    }
    // SRAT memory affinity: every subset, two orders, with repetition
    for mask in 0..8u32 {
        let apply = |order: &[u32]| { let mut m = srat::MemoryAffinity::new(1, 2, 3); for o in order { if mask & (1 << o) != 0 { m = match o { 0 => m.enabled(), 1 => m.hotpluggable(), _ => m.nonvolatile() }; } } le32_at(&ser(&m), 28) };
        for ord in [[0u32, 1, 2], [0, 2, 1], [1, 0, 2], [1, 2, 0], [2, 0, 1], [2, 1, 0]] { assert_eq!(apply(&ord), mask, "SRAT memory affinity flags {:#b} in order {:?}", mask, ord); }
        assert_eq!(apply(&[2, 1, 0, 1, 2]), mask);
    }
    // PPTT processor flags and cache attributes
    for mask in 0..32u32 {
        for ord in [vec![4u32, 0, 3, 1, 2, 0], vec![0, 1, 2, 3, 4], vec![4, 3, 2, 1, 0], vec![2, 4, 0, 3, 1], vec![1, 3, 0, 4, 2], vec![3, 0, 2, 4, 1]] {
            let mut n = pptt::ProcessorNode::new(None, 7);
            for o in ord.iter().copied() { if mask & (1 << o) != 0 { n = match o { 0 => n.physical(), 1 => n.valid(), 2 => n.thread(), 3 => n.leaf(), _ => n.identical() }; } }
            let b = ser(&n); assert_eq!(le32_at(&b, 4), mask, "PPTT processor flags {:#b} in order {:?}", mask, ord); assert_eq!(le32_at(&b, 12), 7);
        }
    }
    use pptt::{AllocationType as A, CacheType as C, WritePolicy as W};
    for (a, av) in [(A::Read, 0u8), (A::Write, 1), (A::Both, 2)] { for (c, cv) in [(C::Data, 0u8), (C::Instruction, 4), (C::Unified, 8)] { for (w, wv) in [(W::Writeback, 0u8), (W::Writethrough, 16)] {
        let orders: [[u8; 3]; 3] = [[0, 1, 2], [2, 1, 0], [1, 2, 0]];
        for ord in orders {
            let mut bld = pptt::CacheNodeBuilder::default().size(0x1111).line_size(64);
            for o in ord { bld = match o { 0 => bld.allocation_type(a), 1 => bld.cache_type(c), _ => bld.write_policy(w) }; }
            let b = ser(&bld.sets(5).associativity(9).id(0x2222).to_node());
            assert_eq!(b[21], av | cv | wv, "cache attributes for order {:?}", ord); assert_eq!(le32_at(&b, 4), 0xff, "all valid flags"); assert_eq!(le32_at(&b, 12), 0x1111); assert_eq!(le32_at(&b, 16), 5); assert_eq!(b[20], 9); assert_eq!(le16_at(&b, 22), 64); assert_eq!(le32_at(&b, 24), 0x2222);
        }
    } } }
    let b = ser(&pptt::CacheNodeBuilder::default().cache_type(C::Unified).to_node()); assert_eq!(le32_at(&b, 4), 1 << 4); assert_eq!(b[21], 8);
    // GICC
    use madt::{EnabledStatus as E, Trigger as T};
    for (s, f) in [(E::Disabled, 0u32), (E::Enabled, 1), (E::DisabledOnlineCapable, 8)] { for (pt, pf) in [(T::Level, 0u32), (T::Edge, 2)] { for (mt, mf) in [(T::Level, 0u32), (T::Edge, 4)] {
        let b = ser(&madt::Gicc::new(s).maintenance_interrupt(11, mt).performance_interrupt(22, pt).mpidr(33));
        assert_eq!(le32_at(&b, 12), f | pf | mf, "GICC flags"); assert_eq!(le32_at(&b, 20), 22); assert_eq!(le32_at(&b, 56), 11); assert_eq!(le64_at(&b, 68), 33); assert_eq!((b[0], b[1]), (0x0b, 82));
    } } }
    // TCPA server flags
    let orders: Vec<Vec<u32>> = {
        let base = [6u32, 2, 0, 5, 1, 3, 4];
        let mut v: Vec<Vec<u32>> = (0..7).map(|r| (0..7).map(|i| base[(i + r) % 7]).collect()).collect();
        v.extend((0..7).map(|r| (0..7).map(|i| base[(7 + r - i) % 7]).collect::<Vec<u32>>()));
        v.push(vec![6, 2, 0, 5, 1, 3, 4, 2]); v.push(vec![3, 3, 2, 2, 1, 0, 0, 4, 5, 6, 4]);
        v
    };
    for mask in 0..128u32 { for order in &orders {
        let mut s = tpm2::TpmServer1_2::new(OEM, TBL, 1);
        for o in order.iter().copied() { if mask & (1 << o) != 0 {
            s = match o { 0 => s.edge_triggered(), 1 => s.active_low(), 2 => s.sci_gpe(9), 3 => s.gsi(0x55), 4 => s.pci_sbdf(1, 2, 3, 4), 5 => s.bus_is_pnp(), _ => s.config_addr(gas::GAS::new(gas::AddressSpace::SystemIo, 8, 0, gas::AccessSize::ByteAccess, 0x4e)) };
            let img = ser(&s);
            assert_eq!(bsum(&img), 0, "TCPA server sums to 0 after every builder call (option {} of order {:?}, option set {:#b})", o, order, mask);
            assert_eq!(le32_at(&img, 4) as usize, img.len());
        } }
        let b = ser(&s);
        check_table("TCPA server", &b);
        assert_eq!(b[59] as u32, mask & 0xf, "interrupt flags for option set {:#b} applied in order {:?}", mask, order); assert_eq!(b[58] as u32, (mask >> 4) & 7, "device flags for option set {:#b} applied in order {:?}", mask, order);
        assert_eq!(b[60], if mask & 4 != 0 { 9 } else { 0 }); assert_eq!(le32_at(&b, 64), if mask & 8 != 0 { 0x55 } else { 0 }); assert_eq!(&b[96..100], if mask & 16 != 0 { &[1u8, 2, 3, 4][..] } else { &[0u8, 0, 0, 0][..] });
    } }
    // FADT flags
    use fadt::Flags as F;
    // every flag of the FADT Flags field (ACPI 6.5 table 5.10), bit number from the specification
    let every = [(F::Wbinvd, 0), (F::WbinvdFlush, 1), (F::ProcC1, 2), (F::PLvl2Up, 3), (F::PwrButton, 4), (F::SlpButton, 5), (F::FixRtc, 6), (F::RtcS4, 7), (F::TmrValExt, 8), (F::DckCap, 9),
                 (F::ResetRegSup, 10), (F::SealedCase, 11), (F::Headless, 12), (F::CpuSwSlp, 13), (F::PciExpWak, 14), (F::UsePlatformClock, 15), (F::S4RtcStsValid, 16), (F::RemotePowerOnCapable, 17),
                 (F::ForceApicClusterModel, 18), (F::ForceApicPhysicalDestinationMode, 19), (F::HwReducedAcpi, 20), (F::LowPowerS0IdleCapable, 21), (F::PersistentCpuCachesNotPersistent, 22), (F::PersistentCpuCachesArePersistent, 23)];
    for i in 0..every.len() { for j in 0..every.len() {
        let b = ser(&fadt::FADTBuilder::new(OEM, TBL, 1).flag(every[i].0).flag(every[j].0).finalize());
        assert_eq!(le32_at(&b, 112), (1u32 << every[i].1) | (1 << every[j].1), "FADT flags {:?} then {:?}", every[i].0, every[j].0);
        check_table("FADT", &b);
    } }
    let all = [(F::Wbinvd, 0), (F::PwrButton, 4), (F::ResetRegSup, 10), (F::HwReducedAcpi, 20), (F::LowPowerS0IdleCapable, 21), (F::PersistentCpuCachesNotPersistent, 22), (F::PersistentCpuCachesArePersistent, 23)];
    for i in 0..all.len() { for j in 0..all.len() {
        let b = ser(&fadt::FADTBuilder::new(OEM, TBL, 1).flag(all[i].0).flag(all[j].0).finalize());
        assert_eq!(le32_at(&b, 112), (1u32 << all[i].1) | (1 << all[j].1), "FADT flags {:?} then {:?}", all[i].0, all[j].0);
        let b = ser(&fadt::FADTBuilder::new(OEM, TBL, 1).flag(all[i].0).flag(all[j].0).flag(all[i].0).finalize());
        assert_eq!(le32_at(&b, 112), (1u32 << all[i].1) | (1 << all[j].1), "FADT flags {:?} {:?} {:?}", all[i].0, all[j].0, all[i].0);
        for k in 0..all.len() {
            let b = ser(&fadt::FADTBuilder::new(OEM, TBL, 1).flag(all[i].0).flag(all[j].0).flag(all[k].0).finalize());
            assert_eq!(le32_at(&b, 112), (1u32 << all[i].1) | (1 << all[j].1) | (1 << all[k].1), "FADT flags {:?} {:?} {:?}", all[i].0, all[j].0, all[k].0);
        }
    } }
    // HMAT locality flags, CEDT restrictions (all subsets)
    let mut s = hmat::SystemLocality::new(hmat::LocalityType::SecondLevelCache, hmat::DataType::AccessLatency, hmat::MinTransferSize::SizeByteAligned, 1, 1, 1);
    assert_eq!(ser(&s)[8], 2); s.non_sequential_transfers(); assert_eq!(ser(&s)[8], 2 | 0x20); s.minimum_transfer_size_required(); s.non_sequential_transfers(); assert_eq!(ser(&s)[8], 2 | 0x30);
    for mask in 0..32u16 {
        for ord in [vec![3u16, 0, 4, 1, 2, 3], vec![0, 1, 2, 3, 4], vec![4, 3, 2, 1, 0], vec![2, 4, 0, 3, 1], vec![1, 3, 0, 4, 2]] {
        let mut f = cedt::CxlFixedMemory::new(0, 1 << 28, cedt::InterleaveArithmetic::Modulo, cedt::InterleaveGranularity::Granularity256b, cedt::InterleaveWays::Ways1, 0);
        for o in ord.iter().copied() { if mask & (1 << o) != 0 { f = match o { 0 => f.cxl_type_2_memory(), 1 => f.cxl_type_3_memory(), 2 => f.volatile(), 3 => f.persistent(), _ => f.fixed_configuration() }; } }
        f.add_target(*b"CPU0");
        assert_eq!(le16_at(&ser(&f), 32), mask, "CFMWS restrictions {:#b} in order {:?}", mask, ord);
        }
    }
    // RIMT IOMMU flags: bit 0 = PCIe device (gates segment / B:D.F), bit 1 = proximity domain valid; independent of the base address
    for bits in 0..8u32 {
        let base = if bits & 4 != 0 { Some(0x1000_0000u64) } else { None };
        let pci = if bits & 1 != 0 { Some(rimt::PciDevice::new(0x12, 0x34, 5, 6)) } else { None };
        let pd = if bits & 2 != 0 { Some(9u32) } else { None };
        let b = ser(&rimt::Iommu::new(1, base, pci, pd, None));
        assert_eq!(le32_at(&b, 16), bits & 3, "IOMMU flags for base={:?} pci={} proximity={:?}", base, bits & 1 != 0, pd);
        assert_eq!(le64_at(&b, 8), base.unwrap_or(0)); assert_eq!(le16_at(&b, 20), if bits & 1 != 0 { 0x12 } else { 0 }); assert_eq!(le32_at(&b, 24), pd.unwrap_or(0));
    }
    let b = ser(&madt::ProcessorLocalApic::new(1, 2, E::DisabledOnlineCapable)); assert_eq!(le32_at(&b, 4), 2);
    let b = ser(&rimt::IdMapping::new(1, 2, 3, { let mut t = rimt::RIMT::new(OEM, TBL, 1); t.add_iommu(rimt::Iommu::new(0, None, None, None, None)) }, true, false, true)); assert_eq!(le32_at(&b, 16), 5); assert_eq!(le32_at(&b, 12), 48);
}
