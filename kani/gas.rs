// Kani harness for the GAS layout seam (child module of `gas`).
extern crate alloc;
use super::*;
use alloc::vec::Vec;
use zerocopy::IntoBytes;

#[kani::proof]
#[kani::unwind(14)]
fn layout_gas() {
    assert!(GAS::len() == 12);
    let space = match kani::any::<u8>() % 13 {
        0 => AddressSpace::SystemMemory, 1 => AddressSpace::SystemIo, 2 => AddressSpace::PciConfigSpace,
        3 => AddressSpace::EmbeddedController, 4 => AddressSpace::Smbus, 5 => AddressSpace::SystemCmos,
        6 => AddressSpace::PciBarTarget, 7 => AddressSpace::Ipmi, 8 => AddressSpace::GeneralPursposeIo,
        9 => AddressSpace::GenericSerialBus, 10 => AddressSpace::PlatformCommunicationsChannel,
        11 => AddressSpace::PlatformRuntimeMechanism, _ => AddressSpace::FunctionalFixedHardware,
    };
    let acc = match kani::any::<u8>() % 5 {
        0 => AccessSize::Undefined, 1 => AccessSize::ByteAccess, 2 => AccessSize::WordAccess,
        3 => AccessSize::DwordAccess, _ => AccessSize::QwordAccess,
    };
    let (w, o, a): (u8, u8, u64) = (kani::any(), kani::any(), kani::any());
    let g = GAS::new(space, w, o, acc, a);
    let mut e: Vec<u8> = Vec::new();
    e.push(space as u8);
    e.push(w);
    e.push(o);
    e.push(acc as u8);
    e.extend_from_slice(&a.to_le_bytes());
    assert!(g.as_bytes() == e.as_slice());
}
