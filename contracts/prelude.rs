// Specification vocabulary, lemmas and dependency stand-ins (module `vp` of the generated
// crate).  Everything here is hand-written *specification*; nothing here is code of /repo.
// Every `external_body` below is an assumption about core/alloc/zerocopy and is listed in
// the trusted base of every evidence file (bin/check scans for them).
use vstd::prelude::*;
use vstd::std_specs::convert::*;
use alloc::vec::Vec;
use alloc::boxed::Box;
use alloc::string::String;

// ---------------------------------------------------------------------------------------
// byte-string arithmetic

#[verifier::opaque]
pub open spec fn sum(s: Seq<u8>) -> int
    decreases s.len()
{
    if s.len() == 0 { 0 } else { sum(s.drop_last()) + s.last() as int }
}

pub open spec fn cksum_ok(s: Seq<u8>) -> bool { sum(s) % 256 == 0 }

pub open spec fn le16(x: u16) -> Seq<u8> { seq![(x % 256) as u8, (x / 256) as u8] }
pub open spec fn le32(x: u32) -> Seq<u8> {
    seq![(x % 256) as u8, ((x / 0x100) % 256) as u8, ((x / 0x1_0000) % 256) as u8, (x / 0x100_0000) as u8]
}
pub open spec fn le64(x: u64) -> Seq<u8> {
    seq![(x % 256) as u8, ((x / 0x100) % 256) as u8, ((x / 0x1_0000) % 256) as u8, ((x / 0x100_0000) % 256) as u8,
         ((x / 0x1_0000_0000) % 256) as u8, ((x / 0x100_0000_0000) % 256) as u8, ((x / 0x1_0000_0000_0000) % 256) as u8, (x / 0x100_0000_0000_0000) as u8]
}
pub open spec fn zeros(n: nat) -> Seq<u8> { Seq::new(n, |i: int| 0u8) }

pub broadcast proof fn lemma_add_assoc(a: Seq<u8>, b: Seq<u8>, c: Seq<u8>)
    ensures #[trigger] ((a + b) + c) == a + (b + c)
{ assert(((a + b) + c) =~= a + (b + c)); }

pub broadcast proof fn lemma_push_is_add(a: Seq<u8>, b: u8)
    ensures #[trigger] a.push(b) == a + seq![b]
{ assert(a.push(b) =~= a + seq![b]); }

pub broadcast proof fn lemma_add_empty(a: Seq<u8>)
    ensures #[trigger] (a + Seq::<u8>::empty()) == a
{ assert(a + Seq::<u8>::empty() =~= a); }

pub broadcast proof fn lemma_empty_add(a: Seq<u8>)
    ensures #[trigger] (Seq::<u8>::empty() + a) == a
{ assert(Seq::<u8>::empty() + a =~= a); }

pub broadcast proof fn lemma_take_step(v: Seq<u8>, i: int)
    requires 0 <= i < v.len()
    ensures #[trigger] v.take(i + 1) == v.take(i) + seq![v[i]]
{ assert(v.take(i + 1) =~= v.take(i) + seq![v[i]]); }

pub broadcast proof fn lemma_take_all(v: Seq<u8>)
    ensures #[trigger] v.take(v.len() as int) == v
{ assert(v.take(v.len() as int) =~= v); }

pub broadcast proof fn lemma_take_zero(v: Seq<u8>)
    ensures #[trigger] v.take(0) == Seq::<u8>::empty()
{ assert(v.take(0) =~= Seq::<u8>::empty()); }

pub broadcast proof fn lemma_sum_add(a: Seq<u8>, b: Seq<u8>)
    ensures #[trigger] sum(a + b) == sum(a) + sum(b)
    decreases b.len()
{
    reveal(sum);
    if b.len() == 0 {
        assert(a + b =~= a);
    } else {
        assert((a + b).drop_last() =~= a + b.drop_last());
        lemma_sum_add(a, b.drop_last());
    }
}

pub broadcast proof fn lemma_sum_one(b: u8)
    ensures #[trigger] sum(seq![b]) == b as int
{
    reveal_with_fuel(sum, 2);
    assert(seq![b].drop_last() =~= Seq::<u8>::empty());
    assert(sum(seq![b]) == sum(seq![b].drop_last()) + seq![b].last() as int);
}

pub broadcast proof fn lemma_sum_empty()
    ensures #[trigger] sum(Seq::<u8>::empty()) == 0
{ reveal(sum); }

pub proof fn lemma_sum_nonneg(s: Seq<u8>)
    ensures 0 <= sum(s) <= 255 * s.len()
    decreases s.len()
{
    reveal(sum);
    if s.len() > 0 { lemma_sum_nonneg(s.drop_last()); }
}

pub proof fn lemma_sum_take_step(v: Seq<u8>, i: int)
    requires 0 <= i < v.len()
    ensures sum(v.take(i + 1)) == sum(v.take(i)) + v[i] as int
{
    assert(v.take(i + 1) =~= v.take(i) + seq![v[i]]);
    lemma_sum_add(v.take(i), seq![v[i]]);
    lemma_sum_one(v[i]);
}

pub broadcast group group_seq {
    lemma_add_assoc, lemma_push_is_add, lemma_add_empty, lemma_empty_add, lemma_take_step,
    lemma_take_all, lemma_take_zero, lemma_sum_add, lemma_sum_one, lemma_sum_empty,
}

// lengths of the little-endian encodings (so that Length-field arithmetic is automatic)
pub broadcast proof fn lemma_le_len16(x: u16) ensures #[trigger] le16(x).len() == 2 { }
pub broadcast proof fn lemma_le_len32(x: u32) ensures #[trigger] le32(x).len() == 4 { }
pub broadcast proof fn lemma_le_len64(x: u64) ensures #[trigger] le64(x).len() == 8 { }


// ---------------------------------------------------------------------------------------
// two's-complement negation: vstd specifies wrapping_add / wrapping_sub but not wrapping_neg; the
// crate does not use it, behaviour-preserving rewrites of the checksum helpers do.  Assumed here,
// proved over the full domain by the Kani harness `shim_wrapping_neg` (kani/lib.rs).
pub assume_specification[ u8::wrapping_neg ](x: u8) -> (r: u8)
    ensures r as int == (256 - x as int) % 256;
pub assume_specification[ u16::wrapping_neg ](x: u16) -> (r: u16)
    ensures r as int == (0x1_0000 - x as int) % 0x1_0000;
pub assume_specification[ u32::wrapping_neg ](x: u32) -> (r: u32)
    ensures r as int == (0x1_0000_0000 - x as int) % 0x1_0000_0000;

// ---------------------------------------------------------------------------------------
// refusal (D6): a diverging call; `r` is the function's permitted refusal condition

#[verifier::external_body]
pub fn refuse(Ghost(r): Ghost<bool>) -> !
    requires r
{ panic!() }

// ---------------------------------------------------------------------------------------
// zerocopy stand-ins (D2, D3).  Contracts are discharged by Kani against the real
// zerocopy types (kani/lib.rs: zc_*).

#[derive(Clone, Copy, PartialEq, Eq)]
pub struct U16 { pub v: u16 }
#[derive(Clone, Copy, PartialEq, Eq)]
pub struct U32 { pub v: u32 }
#[derive(Clone, Copy, PartialEq, Eq)]
pub struct U64 { pub v: u64 }

impl U16 {
    #[verifier::external_body] pub fn get(&self) -> (r: u16) ensures r == self.v { self.v }
    #[verifier::external_body] pub fn set(&mut self, x: u16) ensures final(self).v == x { self.v = x }
    #[verifier::external_body] pub fn new(x: u16) -> (r: Self) ensures r.v == x { U16 { v: x } }
}
impl U32 {
    #[verifier::external_body] pub fn get(&self) -> (r: u32) ensures r == self.v { self.v }
    #[verifier::external_body] pub fn set(&mut self, x: u32) ensures final(self).v == x { self.v = x }
    #[verifier::external_body] pub fn new(x: u32) -> (r: Self) ensures r.v == x { U32 { v: x } }
}
impl U64 {
    #[verifier::external_body] pub fn get(&self) -> (r: u64) ensures r == self.v { self.v }
    #[verifier::external_body] pub fn set(&mut self, x: u64) ensures final(self).v == x { self.v = x }
    #[verifier::external_body] pub fn new(x: u64) -> (r: Self) ensures r.v == x { U64 { v: x } }
}
impl FromSpecImpl<u16> for U16 { open spec fn obeys_from_spec() -> bool { true } open spec fn from_spec(x: u16) -> U16 { U16 { v: x } } }
impl FromSpecImpl<u32> for U32 { open spec fn obeys_from_spec() -> bool { true } open spec fn from_spec(x: u32) -> U32 { U32 { v: x } } }
impl FromSpecImpl<u64> for U64 { open spec fn obeys_from_spec() -> bool { true } open spec fn from_spec(x: u64) -> U64 { U64 { v: x } } }
impl From<u16> for U16 { fn from(x: u16) -> (r: U16) { U16 { v: x } } }
impl From<u32> for U32 { fn from(x: u32) -> (r: U32) { U32 { v: x } } }
impl From<u64> for U64 { fn from(x: u64) -> (r: U64) { U64 { v: x } } }
impl FromSpecImpl<U16> for u16 { open spec fn obeys_from_spec() -> bool { true } open spec fn from_spec(x: U16) -> u16 { x.v } }
impl FromSpecImpl<U32> for u32 { open spec fn obeys_from_spec() -> bool { true } open spec fn from_spec(x: U32) -> u32 { x.v } }
impl FromSpecImpl<U64> for u64 { open spec fn obeys_from_spec() -> bool { true } open spec fn from_spec(x: U64) -> u64 { x.v } }
impl From<U16> for u16 { fn from(x: U16) -> (r: u16) { x.v } }
impl From<U32> for u32 { fn from(x: U32) -> (r: u32) { x.v } }
impl From<U64> for u64 { fn from(x: U64) -> (r: u64) { x.v } }
impl Default for U16 { fn default() -> (r: Self) ensures r.v == 0 { U16 { v: 0 } } }
impl Default for U32 { fn default() -> (r: Self) ensures r.v == 0 { U32 { v: 0 } } }
impl Default for U64 { fn default() -> (r: Self) ensures r.v == 0 { U64 { v: 0 } } }

/// Stand-in for zerocopy::IntoBytes: `raw()` is the specified in-memory image.
pub trait IntoBytes: Sized {
    spec fn raw(&self) -> Seq<u8>;
    /// size of the in-memory image (sum of the packed field widths)
    spec fn size_spec() -> nat;
    /// zerocopy: `as_bytes()` is the object's memory, so its length is size_of::<Self>()
    fn as_bytes(&self) -> (r: &[u8])
        ensures r@ == self.raw(), r@.len() == vstd::layout::size_of::<Self>();
    /// same fact, available without calling as_bytes()
    #[verifier::external_body]
    proof fn lemma_raw_len(&self)
        ensures self.raw().len() == vstd::layout::size_of::<Self>(), self.raw().len() <= 0x7fff_ffff_ffff_ffff
    { }
}
pub trait Immutable {}
pub trait FromBytes {}

impl IntoBytes for u8  { open spec fn size_spec() -> nat { 1 } open spec fn raw(&self) -> Seq<u8> { seq![*self] }  #[verifier::external_body] fn as_bytes(&self) -> (r: &[u8]) { unimplemented!() } }
impl IntoBytes for u16 { open spec fn size_spec() -> nat { 2 } open spec fn raw(&self) -> Seq<u8> { le16(*self) } #[verifier::external_body] fn as_bytes(&self) -> (r: &[u8]) { unimplemented!() } }
impl IntoBytes for u32 { open spec fn size_spec() -> nat { 4 } open spec fn raw(&self) -> Seq<u8> { le32(*self) } #[verifier::external_body] fn as_bytes(&self) -> (r: &[u8]) { unimplemented!() } }
impl IntoBytes for u64 { open spec fn size_spec() -> nat { 8 } open spec fn raw(&self) -> Seq<u8> { le64(*self) } #[verifier::external_body] fn as_bytes(&self) -> (r: &[u8]) { unimplemented!() } }
impl IntoBytes for U16 { open spec fn size_spec() -> nat { 2 } open spec fn raw(&self) -> Seq<u8> { le16(self.v) } #[verifier::external_body] fn as_bytes(&self) -> (r: &[u8]) { unimplemented!() } }
impl IntoBytes for U32 { open spec fn size_spec() -> nat { 4 } open spec fn raw(&self) -> Seq<u8> { le32(self.v) } #[verifier::external_body] fn as_bytes(&self) -> (r: &[u8]) { unimplemented!() } }
impl IntoBytes for U64 { open spec fn size_spec() -> nat { 8 } open spec fn raw(&self) -> Seq<u8> { le64(self.v) } #[verifier::external_body] fn as_bytes(&self) -> (r: &[u8]) { unimplemented!() } }
impl Immutable for u8 {} impl Immutable for u16 {} impl Immutable for u32 {} impl Immutable for u64 {}
impl FromBytes for u8 {} impl FromBytes for u16 {} impl FromBytes for u32 {} impl FromBytes for u64 {}

// ---------------------------------------------------------------------------------------
// std shims (D7, D8)

pub trait ToLe<const N: usize>: Sized {
    spec fn le(self) -> Seq<u8>;
    fn to_le_bytes_v(self) -> (r: [u8; N])
        ensures r@ == self.le();
}
impl ToLe<2> for u16 { open spec fn le(self) -> Seq<u8> { le16(self) } #[verifier::external_body] fn to_le_bytes_v(self) -> (r: [u8; 2]) { self.to_le_bytes() } }
impl ToLe<4> for u32 { open spec fn le(self) -> Seq<u8> { le32(self) } #[verifier::external_body] fn to_le_bytes_v(self) -> (r: [u8; 4]) { self.to_le_bytes() } }
impl ToLe<8> for u64 { open spec fn le(self) -> Seq<u8> { le64(self) } #[verifier::external_body] fn to_le_bytes_v(self) -> (r: [u8; 8]) { self.to_le_bytes() } }

/// by-value iteration over `[u8; N]` is outside Verus; the array is iterated as a Vec
#[verifier::external_body]
pub fn arr_into_vec<const N: usize>(a: [u8; N]) -> (r: Vec<u8>)
    ensures r@ == a@
{ a.to_vec() }

pub uninterp spec fn utf8(s: Seq<char>) -> Seq<u8>;
#[verifier::external_body]
pub fn string_as_bytes(s: &String) -> (r: &[u8])
    ensures r@ == utf8(s@)
{ s.as_bytes() }
#[verifier::external_body]
pub fn string_len(s: &String) -> (r: usize)
    ensures r == utf8(s@).len(), r <= 0x7fff_ffff_ffff_ffff
{ s.len() }

pub uninterp spec fn str_is_ascii(s: Seq<char>) -> bool;

// ---------------------------------------------------------------------------------------
// AML vocabulary (ACPI 6.5 section 20.2), written from the specification

/// PkgLength: `total` encoded in `w` bytes (20.2.4)
pub open spec fn pkg_enc(total: int, w: int) -> Seq<u8> {
    if w == 1 { seq![total as u8] }
    else if w == 2 { seq![(0x40 + total % 16) as u8, ((total / 16) % 256) as u8] }
    else if w == 3 { seq![(0x80 + total % 16) as u8, ((total / 16) % 256) as u8, ((total / 4096) % 256) as u8] }
    else { seq![(0xC0 + total % 16) as u8, ((total / 16) % 256) as u8, ((total / 4096) % 256) as u8, ((total / 1048576) % 256) as u8] }
}
/// shortest width whose value range can include the prefix itself
pub open spec fn pkg_width(len: int) -> int {
    if len + 1 < 64 { 1 } else if len + 2 < 4096 { 2 } else if len + 3 < 1048576 { 3 } else { 4 }
}
/// self-inclusive PkgLength of an object whose content is `len` bytes
pub open spec fn pkg_incl(len: int) -> Seq<u8> { pkg_enc(len + pkg_width(len), pkg_width(len)) }
/// the specification's decoding rule
pub open spec fn pkg_decode(r: Seq<u8>) -> int {
    if r.len() == 1 { (r[0] % 64) as int }
    else if r.len() == 2 { (r[0] % 16) as int + (r[1] as int) * 16 }
    else if r.len() == 3 { (r[0] % 16) as int + (r[1] as int) * 16 + (r[2] as int) * 4096 }
    else { (r[0] % 16) as int + (r[1] as int) * 16 + (r[2] as int) * 4096 + (r[3] as int) * 1048576 }
}
/// lead-byte format: follow-byte count in bits 7-6, bits 5-4 zero when follow bytes exist
pub open spec fn pkg_wf(r: Seq<u8>) -> bool {
    &&& 1 <= r.len() <= 4
    &&& (r.len() == 1 ==> r[0] < 64)
    &&& (r.len() > 1 ==> (r[0] / 64) as int == r.len() - 1 && (r[0] / 16) % 4 == 0)
}
/// exclusive form (field widths): any well-formed encoding; pinned only by decode/wf (seam)
pub uninterp spec fn pkg_excl(len: int) -> Seq<u8>;

pub proof fn lemma_pkg_incl_decodes(len: int)
    requires 0 <= len, len + 4 < 0x1000_0000
    ensures pkg_wf(pkg_incl(len)),
        pkg_decode(pkg_incl(len)) == len + pkg_incl(len).len(),
        pkg_incl(len).len() == pkg_width(len),
{
    let w = pkg_width(len);
    let t = len + w;
    if w == 1 {
    } else if w == 2 {
        assert(((0x40 + t % 16) as u8) % 16 == t % 16);
        assert(((0x40 + t % 16) as u8) / 64 == 1);
    } else if w == 3 {
        assert(((0x80 + t % 16) as u8) % 16 == t % 16);
        assert(((0x80 + t % 16) as u8) / 64 == 2);
    } else {
        assert(((0xC0 + t % 16) as u8) % 16 == t % 16);
        assert(((0xC0 + t % 16) as u8) / 64 == 3);
    }
}

/// integer constants (20.2.3): ZeroOp / OneOp / narrowest prefix + little-endian value
pub open spec fn spec_int(v: u64) -> Seq<u8> {
    if v == 0 { seq![0x00u8] }
    else if v == 1 { seq![0x01u8] }
    else if v <= 0xff { seq![0x0au8] + seq![v as u8] }
    else if v <= 0xffff { seq![0x0bu8] + le16(v as u16) }
    else if v <= 0xffff_ffff { seq![0x0cu8] + le32(v as u32) }
    else { seq![0x0eu8] + le64(v) }
}

/// NameString (20.2.2): root char, then nothing / DualNamePrefix / MultiNamePrefix count
pub open spec fn name_prefix(n: int) -> Seq<u8> {
    if n == 1 { Seq::<u8>::empty() } else if n == 2 { seq![0x2eu8] } else { seq![0x2fu8] + seq![n as u8] }
}
pub open spec fn cat_segs(s: Seq<[u8; 4]>) -> Seq<u8>
    decreases s.len()
{
    if s.len() == 0 { Seq::<u8>::empty() } else { cat_segs(s.drop_last()) + s.last()@ }
}
pub open spec fn spec_name(root: bool, parts: Seq<[u8; 4]>) -> Seq<u8> {
    (if root { seq![0x5cu8] } else { Seq::<u8>::empty() }) + (name_prefix(parts.len() as int) + cat_segs(parts))
}
pub broadcast proof fn lemma_cat_segs_step(s: Seq<[u8; 4]>, i: int)
    requires 0 <= i < s.len()
    ensures #[trigger] cat_segs(s.take(i + 1)) == cat_segs(s.take(i)) + s[i]@
{ assert(s.take(i + 1).drop_last() =~= s.take(i)); }
pub broadcast proof fn lemma_cat_segs_zero(s: Seq<[u8; 4]>)
    ensures #[trigger] cat_segs(s.take(0)) == Seq::<u8>::empty()
{ assert(s.take(0) =~= Seq::<[u8; 4]>::empty()); }
pub broadcast proof fn lemma_segs_take_all(s: Seq<[u8; 4]>)
    ensures #[trigger] s.take(s.len() as int) == s
{ assert(s.take(s.len() as int) =~= s); }
pub broadcast group group_segs { lemma_cat_segs_step, lemma_cat_segs_zero, lemma_segs_take_all }

/// length-delimited object: opcode bytes, self-inclusive PkgLength, content
pub open spec fn framed(op: Seq<u8>, body: Seq<u8>) -> Seq<u8> { op + (pkg_incl(body.len() as int) + body) }

/// typed helper so that loop invariants can talk about a local whose type rustc infers later
pub open spec fn vec_is(v: &Vec<u8>, s: Seq<u8>) -> bool { v@ == s }

/// alloc invariant: a Vec<u8> never holds more than isize::MAX bytes (documented by alloc::vec)
#[verifier::external_body]
pub broadcast proof fn axiom_vec_u8_len(v: Vec<u8>)
    ensures #[trigger] v@.len() <= 0x7fff_ffff_ffff_ffff
{ }

pub broadcast group group_le { lemma_le_len16, lemma_le_len32, lemma_le_len64, axiom_vec_u8_len }

// ---------------------------------------------------------------------------------------
// str / slice shims (D8): documented std behaviour, assumed; validated natively (thorough)

/// (utf8: UTF-8 bytes of a char sequence, a function of the chars; declared above)

#[verifier::external_body]
pub broadcast proof fn axiom_str_bytes(s: &str)
    ensures #[trigger] vstd::string::StringSliceAdditionalSpecFns::spec_bytes(s) == utf8(s@)
{ }

#[verifier::external_body]
pub fn str_starts_with_ascii(s: &str, c: char) -> (r: bool)
    requires (c as u32) < 128
    ensures r == (utf8(s@).len() > 0 && utf8(s@)[0] == c as u8)
{ s.starts_with(c) }

pub uninterp spec fn str_skip(s: Seq<char>, off: int) -> Seq<char>;

#[verifier::external_body]
pub fn str_from<'a>(s: &'a str, off: usize) -> (r: &'a str)
    ensures off <= utf8(s@).len(), utf8(r@) == utf8(s@).skip(off as int)
{ &s[off..] }

pub open spec fn join(parts: Seq<Seq<u8>>, c: u8) -> Seq<u8>
    decreases parts.len()
{
    if parts.len() == 0 { Seq::<u8>::empty() }
    else if parts.len() == 1 { parts[0] }
    else { join(parts.drop_last(), c) + (seq![c] + parts.last()) }
}

pub open spec fn strs_utf8(v: Seq<&str>) -> Seq<Seq<u8>> { v.map_values(|p: &str| utf8(p@)) }

/// the pieces of `b` between occurrences of `c` (uninterpreted; characterised by the shim below)
pub uninterp spec fn split_spec(b: Seq<u8>, c: u8) -> Seq<Seq<u8>>;

/// `s.split(c)` collected: at least one piece, pieces joined by `c` give back `s`, no piece contains `c`
#[verifier::external_body]
pub fn str_split_vec<'a>(s: &'a str, c: char) -> (r: Vec<&'a str>)
    requires (c as u32) < 128
    ensures r@.len() >= 1,
        strs_utf8(r@) == split_spec(utf8(s@), c as u8),
        join(split_spec(utf8(s@), c as u8), c as u8) == utf8(s@),
        forall|i: int, j: int| 0 <= i < r@.len() && 0 <= j < utf8(r@[i]@).len() ==> utf8(r@[i]@)[j] != c as u8,
{ s.split(c).collect() }

#[verifier::external_body]
pub fn str_len(s: &str) -> (r: usize) ensures r == utf8(s@).len(), r <= 0x7fff_ffff_ffff_ffff { s.len() }

#[verifier::external_body]
pub fn str_chars_vec(s: &str) -> (r: Vec<char>) ensures r@ == s@ { s.chars().collect() }

/// `dst.copy_from_slice(src)` panics unless the lengths agree
#[verifier::external_body]
pub fn copy_into4(dst: &mut [u8; 4], src: &[u8])
    ensures src@.len() == 4, final(dst)@ == src@
{ dst.copy_from_slice(src) }

#[verifier::external_body]
pub fn copy_within_v(s: &mut [u8], from: usize, to: usize, dest: usize)
    ensures from <= to <= old(s)@.len(), dest + (to - from) <= old(s)@.len(),
        final(s)@.len() == old(s)@.len(),
        forall|i: int| 0 <= i < final(s)@.len() ==> final(s)@[i] ==
            (if dest <= i < dest + (to - from) { old(s)@[i - dest + from] } else { old(s)@[i] }),
{ s.copy_within(from..to, dest) }

#[verifier::external_body]
pub fn copy_into_v(s: &mut [u8], from: usize, to: usize, src: &[u8])
    ensures from <= to <= old(s)@.len(), src@.len() == to - from,
        final(s)@.len() == old(s)@.len(),
        forall|i: int| 0 <= i < final(s)@.len() ==> final(s)@[i] ==
            (if from <= i < to { src@[i - from] } else { old(s)@[i] }),
{ s[from..to].copy_from_slice(src) }

// ---------------------------------------------------------------------------------------
// UUID / EISA vocabulary (ACPI 6.5 19.6.136 ToUUID, 19.3.4 EISAID)

pub open spec fn hex_ok(c: char) -> bool {
    ('0' <= c <= '9') || ('a' <= c <= 'f') || ('A' <= c <= 'F')
}
pub open spec fn hex_val(c: char) -> int {
    if '0' <= c <= '9' { c as int - 48 } else if 'a' <= c <= 'f' { c as int - 87 } else { c as int - 55 }
}
pub open spec fn hx(s: Seq<char>, i: int, j: int) -> u8 { (hex_val(s[i]) * 16 + hex_val(s[j])) as u8 }
pub open spec fn uuid_sep(i: int) -> bool { i == 8 || i == 13 || i == 18 || i == 23 }
pub open spec fn hex2(s: Seq<char>, i: int, j: int) -> bool { hex_ok(s[i]) && hex_ok(s[j]) }
pub open spec fn uuid_wf(s: Seq<char>) -> bool {
    &&& s.len() == 36
    &&& s[8] == '-' && s[13] == '-' && s[18] == '-' && s[23] == '-'
    &&& hex2(s, 0, 1) && hex2(s, 2, 3) && hex2(s, 4, 5) && hex2(s, 6, 7) && hex2(s, 9, 10) && hex2(s, 11, 12)
    &&& hex2(s, 14, 15) && hex2(s, 16, 17) && hex2(s, 19, 20) && hex2(s, 21, 22) && hex2(s, 24, 25) && hex2(s, 26, 27)
    &&& hex2(s, 28, 29) && hex2(s, 30, 31) && hex2(s, 32, 33) && hex2(s, 34, 35)
}
/// mixed-endian ToUUID byte order for aabbccdd-eeff-gghh-iijj-kkllmmnnoopp
pub open spec fn to_uuid(s: Seq<char>) -> Seq<u8> {
    seq![hx(s, 6, 7), hx(s, 4, 5), hx(s, 2, 3), hx(s, 0, 1), hx(s, 11, 12), hx(s, 9, 10), hx(s, 16, 17), hx(s, 14, 15),
         hx(s, 19, 20), hx(s, 21, 22), hx(s, 24, 25), hx(s, 26, 27), hx(s, 28, 29), hx(s, 30, 31), hx(s, 32, 33), hx(s, 34, 35)]
}
/// converting back: every nibble of the buffer is the value of the digit it came from
pub proof fn lemma_uuid_round_trip(s: Seq<char>, i: int, j: int)
    requires hex2(s, i, j)
    ensures hx(s, i, j) as int / 16 == hex_val(s[i]), hx(s, i, j) as int % 16 == hex_val(s[j])
{ }

/// modular-arithmetic core of the incremental checksum step (C01)
pub proof fn lemma_ck_arith(a0: int, c0: int, a1: int, c1: int, r: int, l0: int, l1: int, b: int, s: int, se: int)
    requires
        (a0 - (r + l0 + b)) % 256 == 0,
        (a1 - (a0 - l0 + l1 + s)) % 256 == 0,
        (s - se) % 256 == 0,
    ensures (a1 - (r + l1 + b + se)) % 256 == 0
{
    let x = a1 - (a0 - l0 + l1 + s);
    let y = a0 - (r + l0 + b);
    let z = s - se;
    assert(a1 - (r + l1 + b + se) == x + y + z);
    assert((x + y + z) % 256 == 0) by {
        assert(x % 256 == 0 && y % 256 == 0 && z % 256 == 0);
        assert((x + y) % 256 == 0);
    }
}

pub proof fn lemma_seq1_inj(a: u8, b: u8)
    requires seq![a] == seq![b]
    ensures a == b
{ assert(seq![a][0] == a); assert(seq![b][0] == b); }

pub proof fn lemma_sum_le16(x: u16)
    ensures sum(le16(x)) == (x % 256) + (x / 256)
{ reveal_with_fuel(sum, 3); }
pub proof fn lemma_sum_le32(x: u32)
    ensures sum(le32(x)) == (x % 256) + ((x / 0x100) % 256) + ((x / 0x1_0000) % 256) + (x / 0x100_0000)
{ reveal_with_fuel(sum, 5); }
pub proof fn lemma_sum_le64(x: u64)
    ensures sum(le64(x)) == (x % 256) + ((x / 0x100) % 256) + ((x / 0x1_0000) % 256) + ((x / 0x100_0000) % 256)
        + ((x / 0x1_0000_0000) % 256) + ((x / 0x100_0000_0000) % 256) + ((x / 0x1_0000_0000_0000) % 256) + (x / 0x100_0000_0000_0000)
{ reveal_with_fuel(sum, 9); }

// ---------------------------------------------------------------------------------------
// generic-table vocabulary (C13): a byte vector with a self-maintaining header

pub open spec fn neg8(x: int) -> u8 { ((256 - x % 256) % 256) as u8 }
/// recompute the checksum byte (offset 9) so that the whole image sums to 0
pub open spec fn sdt_fix(s: Seq<u8>) -> Seq<u8> { s.update(9, neg8(sum(s.update(9, 0u8)))) }
/// overwrite `d.len()` bytes at `off`
pub open spec fn splice(s: Seq<u8>, off: int, d: Seq<u8>) -> Seq<u8> {
    Seq::new(s.len(), |i: int| if off <= i < off + d.len() { d[i - off] } else { s[i] })
}
/// append `d`, rewrite the Length field (offset 4) with the new total, recompute the checksum
pub open spec fn sdt_append(s: Seq<u8>, d: Seq<u8>) -> Seq<u8> {
    sdt_fix(splice(s + d, 4, le32((s.len() + d.len()) as u32)))
}
pub open spec fn sdt_write(s: Seq<u8>, off: int, d: Seq<u8>) -> Seq<u8> { sdt_fix(splice(s, off, d)) }

pub proof fn lemma_sum_update(s: Seq<u8>, i: int, v: u8)
    requires 0 <= i < s.len()
    ensures sum(s.update(i, v)) == sum(s) - s[i] as int + v as int
    decreases s.len()
{
    reveal(sum);
    if i == s.len() - 1 {
        assert(s.update(i, v).drop_last() =~= s.drop_last());
    } else {
        assert(s.update(i, v).drop_last() =~= s.drop_last().update(i, v));
        lemma_sum_update(s.drop_last(), i, v);
    }
}
pub proof fn lemma_sdt_fix_sums_to_zero(s: Seq<u8>)
    requires s.len() >= 10
    ensures cksum_ok(sdt_fix(s)), sdt_fix(s).len() == s.len(),
        forall|i: int| 0 <= i < s.len() && i != 9 ==> sdt_fix(s)[i] == s[i]
{
    let t = s.update(9, 0u8);
    lemma_sum_update(s, 9, 0u8);
    lemma_sum_update(s, 9, neg8(sum(t)));
    lemma_sum_nonneg(t);
}
/// sink view of the generic table: absorb the bytes of `k` one at a time
pub open spec fn sdt_absorb(s: Seq<u8>, k: Seq<u8>) -> Seq<u8>
    decreases k.len()
{
    if k.len() == 0 { s } else { sdt_absorb(sdt_append(s, seq![k[0]]), k.skip(1)) }
}
pub proof fn lemma_sdt_absorb_cons(s: Seq<u8>, b: u8, k: Seq<u8>)
    ensures sdt_absorb(s, seq![b] + k) == sdt_absorb(sdt_append(s, seq![b]), k)
{
    assert((seq![b] + k).skip(1) =~= k);
}

pub proof fn lemma_sdt_fix_congr(a: Seq<u8>, b: Seq<u8>)
    requires a.len() == b.len(), a.len() >= 10, forall|i: int| 0 <= i < a.len() && i != 9 ==> a[i] == b[i]
    ensures sdt_fix(a) == sdt_fix(b)
{
    assert(a.update(9, 0u8) =~= b.update(9, 0u8));
    assert(sdt_fix(a) =~= sdt_fix(b));
}

/// core invariant: a slice never spans more than isize::MAX bytes
#[verifier::external_body]
pub proof fn axiom_slice_u8_len(s: &[u8])
    ensures s@.len() <= 0x7fff_ffff_ffff_ffff
{ }

#[verifier::external_body]
pub proof fn axiom_vec_u32_len(v: Vec<u32>)
    ensures v@.len() <= 0x1fff_ffff_ffff_ffff
{ }
/// five accumulator updates mod 256 compose into one
pub proof fn lemma_mod_chain5(a0: int, x1: int, x2: int, x3: int, x4: int, x5: int, a1: int, a2: int, a3: int, a4: int, a5: int)
    requires a1 == (a0 - x1) % 256, a2 == (a1 + x2) % 256, a3 == (a2 - x3) % 256, a4 == (a3 + x4) % 256, a5 == (a4 + x5) % 256
    ensures (a5 - (a0 - x1 + x2 - x3 + x4 + x5)) % 256 == 0
{
    assert((a1 - (a0 - x1)) % 256 == 0);
    assert((a2 - (a1 + x2)) % 256 == 0);
    assert((a3 - (a2 - x3)) % 256 == 0);
    assert((a4 - (a3 + x4)) % 256 == 0);
    assert((a5 - (a4 + x5)) % 256 == 0);
    let d1 = a1 - (a0 - x1); let d2 = a2 - (a1 + x2); let d3 = a3 - (a2 - x3); let d4 = a4 - (a3 + x4); let d5 = a5 - (a4 + x5);
    assert(a5 - (a0 - x1 + x2 - x3 + x4 + x5) == d1 + d2 + d3 + d4 + d5);
    assert((d1 + d2) % 256 == 0);
    assert((d1 + d2 + d3) % 256 == 0);
    assert((d1 + d2 + d3 + d4) % 256 == 0);
}
/// three accumulator updates (delete old length, append new length, add entry sum)
pub proof fn lemma_mod_chain3(a0: int, x1: int, x2: int, x3: int, a1: int, a2: int, a3: int)
    requires a1 == (a0 - x1) % 256, a2 == (a1 + x2) % 256, a3 == (a2 + x3) % 256
    ensures (a3 - (a0 - x1 + x2 + x3)) % 256 == 0
{
    let d1 = a1 - (a0 - x1); let d2 = a2 - (a1 + x2); let d3 = a3 - (a2 + x3);
    assert(d1 % 256 == 0 && d2 % 256 == 0 && d3 % 256 == 0);
    assert(a3 - (a0 - x1 + x2 + x3) == d1 + d2 + d3);
    assert((d1 + d2) % 256 == 0);
}

pub proof fn lemma_sum_pair(a: u8, b: u8)
    ensures sum(seq![a, b]) == a as int + b as int
{ reveal_with_fuel(sum, 3); }

/// delete old length, append new length, add entry sum, delete old count, append new count
pub proof fn lemma_mod_chain5b(a0: int, x1: int, x2: int, x3: int, x4: int, x5: int, a1: int, a2: int, a3: int, a4: int, a5: int)
    requires a1 == (a0 - x1) % 256, a2 == (a1 + x2) % 256, a3 == (a2 + x3) % 256, a4 == (a3 - x4) % 256, a5 == (a4 + x5) % 256
    ensures (a5 - (a0 - x1 + x2 + x3 - x4 + x5)) % 256 == 0
{
    let d1 = a1 - (a0 - x1); let d2 = a2 - (a1 + x2); let d3 = a3 - (a2 + x3); let d4 = a4 - (a3 - x4); let d5 = a5 - (a4 + x5);
    assert(d1 % 256 == 0 && d2 % 256 == 0 && d3 % 256 == 0 && d4 % 256 == 0 && d5 % 256 == 0);
    assert(a5 - (a0 - x1 + x2 + x3 - x4 + x5) == d1 + d2 + d3 + d4 + d5);
    assert((d1 + d2) % 256 == 0);
    assert((d1 + d2 + d3) % 256 == 0);
    assert((d1 + d2 + d3 + d4) % 256 == 0);
}

/// every byte of the image is zero (the derived Default of a packed structure)
pub open spec fn is_zero_image(s: Seq<u8>) -> bool { forall|i: int| 0 <= i < s.len() ==> s[i] == 0u8 }

/// D25: `core::mem::size_of::<T>()` of a packed structure is the sum of its field widths
/// (checked against rustc by the generated Kani layout harness of T)
#[verifier::external_body]
pub fn packed_size_of<T: IntoBytes>() -> (r: usize)
    ensures r == T::size_spec()
{ core::mem::size_of::<T>() }

pub proof fn lemma_sum_zeros(n: nat)
    ensures sum(zeros(n)) == 0
    decreases n
{
    reveal(sum);
    if n > 0 {
        assert(zeros(n).drop_last() =~= zeros((n - 1) as nat));
        lemma_sum_zeros((n - 1) as nat);
    }
}

pub proof fn lemma_mod_add_chain4(a0: int, x1: int, x2: int, x3: int, x4: int, a1: int, a2: int, a3: int, a4: int)
    requires a1 == (a0 + x1) % 256, a2 == (a1 + x2) % 256, a3 == (a2 + x3) % 256, a4 == (a3 + x4) % 256
    ensures (a4 - (a0 + x1 + x2 + x3 + x4)) % 256 == 0
{
    let d1 = a1 - (a0 + x1); let d2 = a2 - (a1 + x2); let d3 = a3 - (a2 + x3); let d4 = a4 - (a3 + x4);
    assert(d1 % 256 == 0 && d2 % 256 == 0 && d3 % 256 == 0 && d4 % 256 == 0);
    assert(a4 - (a0 + x1 + x2 + x3 + x4) == d1 + d2 + d3 + d4);
    assert((d1 + d2) % 256 == 0);
    assert((d1 + d2 + d3) % 256 == 0);
}
