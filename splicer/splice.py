#!/usr/bin/env python3
"""Splicer: re-extract every function of /repo/src verbatim, weave in the contracts of
/verif/contracts/*.vspec, and emit one Verus crate.

The rewrite rules (D1..) are documented in DESIGN.md section 3; each application is
counted and reported.  Output: <out>/acpi_verus.rs and <out>/map.json (generated line ->
function / clause / property tags).
"""
import copy
import alpha
import inline
import json
import os
import re
import shutil
import subprocess
import sys

sys.path.insert(0, os.path.dirname(os.path.abspath(__file__)))
from rustscan import (ScanError, blank_comments, code_mask, find_top, match_close,
                      parse_file, parse_fn, scan_items, split_top)

VERIF = os.path.dirname(os.path.dirname(os.path.abspath(__file__)))


class SpliceError(Exception):
    """Machinery cannot produce a crate (lost anchor, unparsable source): exit 2."""


# --------------------------------------------------------------------------------------
# contract files

class FnSpec:
    def __init__(self, key):
        self.key = key
        self.name = 'r'
        self.requires = []     # (tags, text)
        self.ensures = []      # (tags, text)
        self.refuses = None
        self.decreases = None
        self.attrs = []
        self.tags = None
        self.top = []
        self.loops = {}        # n -> dict(invariant=[(tags,text)], decreases, top, end, binder)
        self.hints = []        # (where, n, literal, text)
        self.trusted = None
        self.used = False
        self.srcline = 0
        self.opaque_body = None   # replace body entirely (only for trusted fns)
        self.overflow_tags = None
        self.nobroadcast = False
        self.end = []       # text inserted before the closing brace of a body without tail expression


class ModSpec:
    def __init__(self, name):
        self.name = name
        self.fns = {}
        self.impl_items = {}    # impl key -> [text]
        self.module_text = []
        self.raw = {}           # struct name -> spec expr for IntoBytes::raw
        self.defaults = {}      # struct name -> ensures text for default()
        self.drop_fns = set()
        self.structural = set()
        self.private = set()   # structs whose fields stay private (type invariants)
        self.broadcast = None  # lemma groups inserted at the top of every exec fn body and loop body
        self.rewrites = []      # (fnkey or '*', literal_from, literal_to, reason)
        self.uses = []


TAG_RE = re.compile(r'^\[([A-Z0-9 ,]+)\]\s*')


def expand_templates(lines, path, shared=True):
    templates = {}
    sp = os.path.join(VERIF, 'contracts', '_templates.vspec')
    if shared and os.path.exists(sp) and os.path.abspath(path) != sp:
        lines = open(sp).read().split('\n') + lines
    out = []
    cur = None
    for ln in lines:
        m = re.match(r'@template\s+(\S+)\s*(.*)$', ln)
        if m:
            cur = (m.group(1), m.group(2).split(), [])
            continue
        if ln.strip() == '@endtemplate':
            templates[cur[0]] = cur
            cur = None
            continue
        if cur is not None:
            cur[2].append(ln)
            continue
        m = re.match(r'@apply\s+(\S+)\s*(.*)$', ln)
        if m:
            if m.group(1) not in templates:
                raise SpliceError('%s: unknown template %s' % (path, m.group(1)))
            _, params, body = templates[m.group(1)]
            args = m.group(2).split(None, len(params) - 1) if params else []
            if len(args) != len(params):
                raise SpliceError('%s: @apply %s arity' % (path, m.group(1)))
            for b in body:
                for pn, av in sorted(zip(params, args), key=lambda x: -len(x[0])):
                    b = b.replace('$' + pn, av)
                out.append(b)
            continue
        out.append(ln)
    return out


def parse_vspec(path, name):
    ms = ModSpec(name)
    if not os.path.exists(path):
        return ms
    cur_fn = None
    cur_loop = None
    cur_impl = None
    directive = None
    buf = []
    lineno = 0
    dline = 0

    def flush():
        nonlocal directive, buf, cur_fn, cur_loop, cur_impl
        if directive is None:
            return
        text = '\n'.join(buf).rstrip()
        first, _, rest = text.partition('\n')
        d = directive
        arg = text.strip()
        tags = []
        m = TAG_RE.match(arg)
        if m and d in ('ensures', 'requires', 'invariant', 'tags'):
            tags = m.group(1).replace(',', ' ').split()
            arg = arg[m.end():]
        if d == 'fn':
            if arg in ms.fns:
                cur_fn = ms.fns[arg]      # re-opened: further clauses are appended
            else:
                cur_fn = FnSpec(arg)
                cur_fn.srcline = dline
                ms.fns[arg] = cur_fn
            cur_loop = None
        elif d == 'name':
            cur_fn.name = arg
        elif d == 'requires':
            cur_fn.requires.append((tags, arg))
        elif d == 'ensures':
            cur_fn.ensures.append((tags, arg))
        elif d == 'refuses':
            cur_fn.refuses = arg
        elif d == 'decreases':
            cur_fn.decreases = arg
        elif d == 'attr':
            cur_fn.attrs.append(arg)
        elif d == 'tags':
            cur_fn.tags = arg.split()
        elif d == 'end':
            cur_fn.end.append(arg)
        elif d == 'nobroadcast':
            cur_fn.nobroadcast = True
        elif d == 'overflow':
            cur_fn.overflow_tags = arg.split()
        elif d == 'top':
            cur_fn.top.append(arg)
        elif d == 'trusted':
            cur_fn.trusted = arg or 'trusted'
        elif d == 'body':
            cur_fn.opaque_body = arg
        elif d == 'loop':
            cur_loop = dict(invariant=[], decreases=None, top=[], end=[], binder='it')
            cur_fn.loops[int(arg)] = cur_loop
        elif d == 'invariant':
            cur_loop['invariant'].append((tags, arg))
        elif d == 'ldecreases':
            cur_loop['decreases'] = arg
        elif d == 'ltop':
            cur_loop['top'].append(arg)
        elif d == 'lend':
            cur_loop['end'].append(arg)
        elif d == 'hint':
            hm = re.match(r'(before|after)\s+(\d+)\s+`([^`]*)`\s*(.*)$', arg, re.S)
            if not hm:
                raise SpliceError('%s:%d bad @hint' % (path, dline))
            cur_fn.hints.append((hm.group(1), int(hm.group(2)), hm.group(3), hm.group(4)))
        elif d == 'impl':
            cur_impl = arg
            ms.impl_items.setdefault(arg, [])
        elif d == 'item':
            ms.impl_items[cur_impl].append(arg)
        elif d == 'module':
            ms.module_text.append(arg)
        elif d == 'raw':
            sname, _, expr = arg.partition(' ')
            ms.raw[sname] = expr.strip()
        elif d == 'default':
            sname, _, expr = arg.partition(' ')
            ms.defaults[sname] = expr.strip()
        elif d == 'structural':
            ms.structural.update(arg.split())
        elif d == 'broadcast':
            ms.broadcast = arg.strip()
        elif d == 'private':
            ms.private.update(arg.split())
        elif d == 'rewrite':
            rm = re.match(r'`([^`]*)`\s*=>\s*`([^`]*)`\s*(.*)$', arg, re.S)
            if not rm:
                raise SpliceError('%s:%d bad @rewrite' % (path, dline))
            ms.rewrites.append((cur_fn.key if cur_fn else '*', rm.group(1), rm.group(2), rm.group(3)))
        elif d == 'use':
            ms.uses.append(arg)
        else:
            raise SpliceError('%s:%d unknown directive @%s' % (path, dline, d))
        directive, buf = None, []

    for line in expand_templates(open(path).read().split('\n'), path):
        lineno += 1
        line = line.rstrip('\n')
        if line.startswith('#') and not line.startswith('#['):
            continue
        m = re.match(r'@([a-z]+)\s?(.*)$', line)
        if m:
            flush()
            directive = m.group(1)
            dline = lineno
            buf = [m.group(2)]
        else:
            if directive is not None:
                buf.append(line)
    flush()
    return ms


# --------------------------------------------------------------------------------------
# emitter with provenance

class Out:
    def __init__(self):
        self.lines = []
        self.regions = []   # dict(start,end,fn,kind,tags,text)
        self.counts = {}

    def emit(self, text, fn=None, kind=None, tags=None, src=None):
        start = len(self.lines) + 1
        for l in text.split('\n'):
            self.lines.append(l)
        end = len(self.lines)
        if fn is not None:
            self.regions.append(dict(start=start, end=end, fn=fn, kind=kind, tags=tags or [],
                                     text=text.strip()[:300], src=src))

    def count(self, rule, n=1):
        if n:
            self.counts[rule] = self.counts.get(rule, 0) + n


class Deferred:
    def __init__(self):
        self.calls = []

    def emit(self, *a, **kw):
        self.calls.append((a, kw))

    def count(self, *a, **kw):
        pass


DROP_DERIVES = {'IntoBytes', 'Immutable', 'FromBytes', 'KnownLayout', 'Debug', 'Unaligned', 'TryFromBytes'}


def rewrite_attrs(attrs, out, name, ms, kind='struct'):
    """Filter attributes of a struct/enum (D1, D2, D14, D15).  Returns (attr lines, had_intobytes, had_default)."""
    res = []
    had_ib = False
    had_default = False
    markers = []
    rewrite_attrs.markers = markers
    for a in attrs:
        inner = a.strip()
        if inner.startswith('#[doc') or inner.startswith('#[deprecated') or inner.startswith('#[allow') or inner.startswith('#[macro_export'):
            continue
        if inner.startswith('#[repr'):
            if 'packed' in inner:
                inner2 = re.sub(r',?\s*packed(\([0-9]+\))?', '', inner)
                inner2 = re.sub(r'\(\s*,\s*', '(', inner2)
                out.count('D2 repr(packed) dropped')
                if re.match(r'#\[repr\(\s*\)\]', inner2):
                    continue
                res.append(inner2)
            else:
                res.append(inner)
            continue
        m = re.match(r'#\[derive\((.*)\)\]$', inner, re.S)
        if m:
            ds = [d.strip() for d in m.group(1).split(',') if d.strip()]
            keep = []
            for d in ds:
                base = d.split('::')[-1]
                if base in DROP_DERIVES:
                    if base == 'IntoBytes':
                        had_ib = True
                        out.count('D2 derive(IntoBytes) -> spec raw()')
                    if base in ('Immutable', 'FromBytes'):
                        markers.append(base)
                    continue
                if base == 'Default' and (name in ms.defaults or ('IntoBytes' in [x.split('::')[-1] for x in ds] and kind == 'struct')):
                    had_default = True
                    out.count('D14 derive(Default) -> specified impl')
                    continue
                if base == 'Eq' :
                    keep.append(d)
                    continue
                keep.append(d)
            if name in ms.structural and 'PartialEq' in keep:
                keep.append('Structural')
                out.count('D15 Structural added')
            if keep:
                res.append('#[derive(%s)]' % ', '.join(keep))
            continue
        res.append(inner)
    return res, had_ib, had_default



def publicise_struct(text, kind, out):
    """D17: every field and the type itself become `pub` (visibility has no run-time content;
    contracts of public functions must be able to name the fields)."""
    mask = code_mask(text)
    m = re.match(r'\s*(pub(?:\s*\([^)]*\))?\s+)?(struct|enum|union)\b', mask)
    body_text = text[m.end():]
    head = 'pub ' + m.group(2)
    if kind == 'enum':
        return head + body_text
    bmask = mask[m.end():]
    j = find_top(bmask, 0, '{(;')
    if j < 0 or bmask[j] == ';':
        return head + body_text
    k = match_close(bmask, j)
    inner = body_text[j + 1:k]
    fields = split_top(inner)
    newf = []
    for f in fields:
        if f.strip() == '':
            newf.append(f)
            continue
        fm = re.match(r'(\s*(?:#\[[^\]]*\]\s*)*)(pub(?:\s*\([^)]*\))?\s+)?(.*)$', f, re.S)
        newf.append(fm.group(1) + 'pub ' + fm.group(3))
        if not fm.group(2):
            out.count('D17 field made pub')
    return head + body_text[:j + 1] + ','.join(newf) + body_text[k:]

PRIM = {'u8': 1, 'u16': 2, 'u32': 4, 'u64': 8, 'U16': 2, 'U32': 4, 'U64': 8}


def packed_fields(text):
    """[(name, type)] of a named-field struct, in declaration order."""
    mask = code_mask(text)
    j = mask.find('{')
    if j < 0:
        return None
    k = match_close(mask, j)
    fields = []
    for f in split_top(text[j + 1:k]):
        f = re.sub(r'#\[[^\]]*\]', '', f).strip()
        if not f:
            continue
        m = re.match(r'(?:pub(?:\s*\([^)]*\))?\s+)?((?:r#)?[A-Za-z_][A-Za-z0-9_]*)\s*:\s*(.+)$', f, re.S)
        if not m:
            return None
        fields.append((m.group(1), ' '.join(m.group(2).split())))
    return fields


def enum_info(text, attrs):
    """discriminant values and repr width of a fieldless enum"""
    width = None
    for a in attrs:
        m = re.match(r'#\[repr\((u8|u16|u32|u64)\)\]', a.strip())
        if m:
            width = PRIM[m.group(1)]
    mask = code_mask(text)
    j = mask.find('{')
    if j < 0 or width is None:
        return None
    k = match_close(mask, j)
    vals = []
    nxt = 0
    for v in split_top(text[j + 1:k]):
        v = re.sub(r'#\[[^\]]*\]', '', v).strip()
        if not v:
            continue
        m = re.match(r'([A-Za-z_][A-Za-z0-9_]*)\s*(?:=\s*(.+))?$', v, re.S)
        if not m:
            return None
        if m.group(2) is not None:
            try:
                nxt = int(eval(m.group(2).strip().replace('_', ''), {'__builtins__': {}}))
            except Exception:
                return None
        vals.append(nxt)
        nxt += 1
    return dict(width=width, values=vals)


def enum_variants(text):
    """[(variant, discriminant)] of a fieldless enum (explicit `= expr` or positional); None if the
    enum has payload variants or a discriminant that is not a constant integer expression"""
    mask = code_mask(text)
    j = mask.find('{')
    if j < 0:
        return None
    k = match_close(mask, j)
    out = []
    nxt = 0
    for v in split_top(text[j + 1:k], ',', False):
        v = re.sub(r'#\[[^\]]*\]', '', v).strip()
        if not v:
            continue
        m = re.match(r'([A-Za-z_][A-Za-z0-9_]*)\s*(?:=\s*(.+))?$', v, re.S)
        if not m:
            return None
        if m.group(2) is not None:
            try:
                nxt = int(eval(m.group(2).strip().replace('_', ''), {'__builtins__': {}}))
            except Exception:
                return None
        out.append([m.group(1), nxt])
        nxt += 1
    return out


def auto_size(it, splicer):
    fields = packed_fields(it.text[it.decl_off - it.start:])
    if not fields:
        return None
    parts = []
    for (n, t) in fields:
        if t in PRIM:
            parts.append(str(PRIM[t]))
        else:
            m = re.match(r'\[u8;\s*(\d+)\]$', t)
            if m:
                parts.append(m.group(1))
            elif re.match(r'[A-Za-z_][A-Za-z0-9_:]*$', t):
                parts.append('%s::size_spec()' % t)
            else:
                return None
    return ' + '.join(parts)


def auto_default(text, splicer):
    """D14: derived Default of a packed struct = every field zero (checked by the generated Kani
    layout harness: as_bytes(&T::default()) is all zero)."""
    fields = packed_fields(text)
    if not fields:
        return None
    parts = []
    for (n, t) in fields:
        if t in ('u8', 'u16', 'u32', 'u64'):
            parts.append('r.%s == 0' % n)
        elif t in ('U16', 'U32', 'U64'):
            parts.append('r.%s.v == 0' % n)
        else:
            m = re.match(r'\[u8;\s*(\d+)\]$', t)
            if m:
                parts.append('r.%s@ == zeros(%s)' % (n, m.group(1)))
            elif re.match(r'[A-Za-z_][A-Za-z0-9_:]*$', t):
                parts.append('is_zero_image(r.%s.raw())' % n)
            else:
                return None
    return ' && '.join(parts)


def auto_raw(text):
    """D2: the in-memory image of a #[repr(C, packed)] struct is its fields in declaration order
    with no padding (checked against rustc + zerocopy by the generated Kani layout harness)."""
    fields = packed_fields(text)
    if not fields:
        return None
    parts = []
    for (n, t) in fields:
        if t == 'u8':
            parts.append('seq![self.%s]' % n)
        elif t in ('u16', 'u32', 'u64'):
            parts.append('le%d(self.%s)' % (PRIM[t] * 8, n))
        elif t in ('U16', 'U32', 'U64'):
            parts.append('le%d(self.%s.v)' % (PRIM[t] * 8, n))
        elif re.match(r'\[u8;\s*\d+\]$', t):
            parts.append('self.%s@' % n)
        elif re.match(r'[A-Za-z_][A-Za-z0-9_:]*$', t):
            parts.append('self.%s.raw()' % n)
        else:
            return None
    expr = parts[-1]
    for p in reversed(parts[:-1]):
        expr = '%s + (%s)' % (p, expr)
    return expr


# --------------------------------------------------------------------------------------
# body rewrites

def find_matching_paren(mask, i):
    return match_close(mask, i)


def rewrite_macros_panics(body, refuse_expr, out):
    """D6: assert!/assert_eq!/assert_ne!/panic!/unreachable!/debug_assert! -> refuse()."""
    blk = '{ let ghost __refuse_ok: bool = (%s); crate::vp::refuse(Ghost(__refuse_ok)) }' % (refuse_expr if refuse_expr else 'false')
    res = []
    i = 0
    mask = code_mask(body)
    pat = re.compile(r'\b(debug_assert(?:_eq|_ne)?|assert_eq|assert_ne|assert|panic|unreachable|unimplemented|todo)\s*!\s*\(')
    while True:
        m = pat.search(mask, i)
        if not m:
            res.append(body[i:])
            break
        # skip verus `assert(` (no bang) handled by regex requiring '!'
        op = m.end() - 1
        cl = match_close(mask, op)
        args = body[op + 1:cl]
        name = m.group(1)
        res.append(body[i:m.start()])
        if name.startswith('debug_assert'):
            rep = '()'
            out.count('D6 debug_assert dropped')
        elif name == 'assert':
            cond = split_top(args, angle=False)[0]
            rep = 'if !(%s) %s' % (cond.strip(), blk)
            out.count('D6 assert! -> refuse')
        elif name in ('assert_eq', 'assert_ne'):
            parts = split_top(args, angle=False)
            opx = '==' if name == 'assert_eq' else '!='
            rep = 'if !((%s) %s (%s)) %s' % (parts[0].strip(), opx, parts[1].strip(), blk)
            out.count('D6 %s! -> refuse' % name)
        else:
            rep = blk
            out.count('D6 %s! -> refuse' % name)
        res.append(rep)
        i = cl + 1
    return ''.join(res)


def rename_self(body):
    """D11: every `self` token -> `__self` (mask-aware)."""
    mask = code_mask(body)
    res, i = [], 0
    for m in re.finditer(r'\bself\b', mask):
        res.append(body[i:m.start()])
        res.append('__self')
        i = m.end()
    res.append(body[i:])
    return ''.join(res)


def rename_raw_idents(body, out):
    """D18: a raw identifier used as a variable (`r#type`) crashes Verus's SMT encoding; variables
    are renamed to `type_v`.  Field accesses (`x.r#type`), explicit field initialisers (`r#type: e`)
    keep the field name; a shorthand field (`S { r#type, .. }`) becomes `r#type: type_v`."""
    mask = code_mask(body)
    res = []
    i = 0
    stack = []
    pat = re.compile(r'r#([a-z_]+)\b')
    pos = 0
    n = 0
    while pos < len(mask):
        c = mask[pos]
        if c in '([{':
            # a `{` directly after an identifier / path / `>` is a struct literal or pattern
            j = pos - 1
            while j >= 0 and mask[j].isspace():
                j -= 1
            tok = re.search(r'([A-Za-z_][A-Za-z0-9_]*)\s*$', mask[:j + 1])
            is_struct = c == '{' and tok is not None and tok.group(1)[0].isupper()
            stack.append('S' if is_struct else c)
            pos += 1
            continue
        if c in ')]}':
            if stack:
                stack.pop()
            pos += 1
            continue
        m = pat.match(mask, pos)
        if m and (pos == 0 or not (mask[pos - 1].isalnum() or mask[pos - 1] in '_.#')):
            after = mask[m.end():m.end() + 40].lstrip()
            name = m.group(1)
            if after.startswith(':') and not after.startswith('::'):
                pos = m.end()
                continue
            res.append(body[i:pos])
            if stack and stack[-1] == 'S' and (after.startswith(',') or after.startswith('}')):
                res.append('r#%s: %s_v' % (name, name))
            else:
                res.append('%s_v' % name)
            n += 1
            i = pos = m.end()
            continue
        pos += 1
    res.append(body[i:])
    if n:
        out.count('D18 raw identifier variable renamed', n)
    return ''.join(res)


BYTESTR = re.compile(r'\*\s*b"((?:[^"\\]|\\.)*)"')


def bytestr_to_array(text, out):
    """D16: `*b"XSDT"` -> `[88u8, 83u8, 68u8, 84u8]`."""
    def rep(m):
        s = m.group(1)
        bs = bytes(s, 'utf-8').decode('unicode_escape').encode('latin-1')
        out.count('D16 *b"…" -> array literal')
        return '[' + ', '.join('%du8' % b for b in bs) + ']'
    return BYTESTR.sub(rep, text)


def apply_literal_rewrites(text, fnkey, ms, out, glob):
    for (scope, a, b, why) in list(ms.rewrites) + list(glob):
        if scope != '*' and scope != fnkey:
            continue
        if a in text:
            n = text.count(a)
            text = text.replace(a, b)
            out.count('%s' % (why or ('rewrite `%s`' % a)), n)
        elif scope != '*':
            # same token sequence in another layout (re-wrapped by a formatter)?
            sp = find_lit_span(text, a, 0)
            if sp is None:
                raise SpliceError('lost anchor: @rewrite `%s` not found in %s' % (a, fnkey))
            text = text[:sp[0]] + b + text[sp[1]:]
            out.count('%s' % (why or ('rewrite `%s`' % a)), 1)
    return text


LOOP_RE = re.compile(r'\b(for|while|loop)\b')


def rewrite_loops(body, spec, fnkey, out, bcast=None):
    """D5: add `it:` binder + invariants to the n-th loop.  Returns new body and a list of
    (marker, loop_index) for provenance."""
    mask = code_mask(body)
    pieces = []
    i = 0
    n = 0
    pos = 0
    loops_found = 0
    while True:
        m = LOOP_RE.search(mask, pos)
        if not m:
            break
        kw = m.group(1)
        # find the '{' opening the loop body
        j = find_top(mask, m.end(), '{')
        if j < 0:
            raise SpliceError('%s: cannot find loop body' % fnkey)
        header = body[m.end():j]
        ls = spec.loops.get(n) if spec else None
        loops_found += 1
        new_header = None
        if kw == 'for':
            hm = re.match(r'(\s*)(.*?)\s+in\s+(.*?)\s*$', header, re.S)
            if not hm:
                raise SpliceError('%s: cannot parse for-loop header %r' % (fnkey, header))
            pat, expr = hm.group(2), hm.group(3)
            if ls is not None:
                new_header = ' %s in %s: %s' % (pat, ls['binder'], expr)
            else:
                new_header = ' %s in %s' % (pat, expr)
        else:
            new_header = header.rstrip()
        clauses = ''
        if ls is not None:
            if ls['invariant']:
                clauses += '\n    invariant\n' + ''.join('        %s,\n' % t for (_, t) in ls['invariant'])
            if ls['decreases']:
                clauses += '    decreases %s,\n' % ls['decreases']
        close = match_close(mask, j)
        inner = body[j + 1:close]
        pieces.append(body[i:m.start()])
        marker_top = ('\nbroadcast use {%s};' % bcast if bcast else '') + ''.join('\n' + t for t in (ls['top'] if ls else []))
        marker_end = ''.join('\n' + t for t in (ls['end'] if ls else []))
        # recursively handle nested loops inside `inner` by continuing the scan: we only
        # rewrite the header here and keep scanning after '{'
        pieces.append('%s%s%s {@@LOOP%d@@%s' % (kw, new_header, ('\n' + clauses) if clauses else '', n, marker_top))
        # end-of-loop hint: insert before the closing brace
        if marker_end:
            body = body[:close] + marker_end + '\n' + body[close:]
            mask = mask[:close] + ' ' * (len(marker_end) + 1) + mask[close:]
        i = j + 1
        pos = j + 1
        n += 1
    pieces.append(body[i:])
    if spec:
        for k in spec.loops:
            if k >= loops_found:
                raise SpliceError('lost anchor: %s has %d loops, contract names loop %d' % (fnkey, loops_found, k))
    return ''.join(pieces)


_LIT_TOK = re.compile(r'[A-Za-z_][A-Za-z0-9_]*|\d[A-Za-z0-9_]*|\s+|.', re.S)


def find_lit_span(body, lit, start=0):
    """(start, end) of the anchor text `lit` in body at or after `start`: exact match first, then the
    same token sequence in any layout, with the trailing commas a formatter adds before a closing
    bracket (an anchor must survive re-wrapping).  None if absent."""
    i = body.find(lit, start)
    if i >= 0:
        return i, i + len(lit)
    toks = [t for t in _LIT_TOK.findall(lit) if not t.isspace()]
    if not toks:
        return None
    parts = []
    for a, b in zip(toks, toks[1:] + ['']):
        parts.append(re.escape(a))
        if re.match(r'\w', a[-1]) and b and re.match(r'\w', b[0]):
            parts.append(r'\s+')          # two word-like tokens need a separator
        elif b in (')', ']', '}') and a not in ('(', '[', '{', ','):
            parts.append(r'\s*(?:,\s*)?')  # optional trailing comma
        else:
            parts.append(r'\s*')
    m = re.compile(''.join(parts[:-1])).search(body, start)
    return (m.start(), m.end()) if m else None


def find_lit(body, lit, start=0):
    sp = find_lit_span(body, lit, start)
    return sp[0] if sp else -1


def stmt_start(mask, idx):
    """Start of the statement that contains position idx (after the previous top-level `;`, `{` or `}`)."""
    depth = 0
    j = idx - 1
    while j >= 0:
        c = mask[j]
        if c in ')]':
            depth += 1
        elif c in '([':
            if depth == 0:
                break
            depth -= 1
        elif c == '}':
            if depth == 0:
                break
            depth += 1
        elif c == '{':
            if depth == 0:
                break
            depth -= 1
        elif c == ';' and depth == 0:
            break
        j -= 1
    j += 1
    while j < idx and mask[j].isspace():
        j += 1
    return j


def apply_hints(body, spec, fnkey):
    if not spec:
        return body
    for (where, n, lit, text) in spec.hints:
        mask = code_mask(body)
        idx = -1
        start = 0
        for _ in range(n + 1):
            idx = find_lit(body, lit, start)
            if idx < 0:
                raise SpliceError('lost anchor: @hint `%s` #%d not found in %s' % (lit, n, fnkey))
            start = idx + 1
        if where == 'before':
            ls = stmt_start(mask, idx)
            body = body[:ls] + text + '\n' + body[ls:]
        else:
            j = find_top(mask, idx, ';}')
            if j < 0:
                raise SpliceError('lost anchor: no statement end after `%s` in %s' % (lit, fnkey))
            if mask[j] == '}':
                # the anchored statement is an unterminated tail of its block (`x = y }`): terminate it
                k = j
                while k > 0 and mask[k - 1].isspace():
                    k -= 1
                body = body[:k] + ';\n' + text + '\n' + body[j:]
            else:
                body = body[:j + 1] + '\n' + text + body[j + 1:]
    return body


# global literal rewrites (D4, D7, D8 ...) are kept in contracts/rewrites.json
def load_global_rewrites():
    p = os.path.join(VERIF, 'contracts', 'rewrites.json')
    if not os.path.exists(p):
        return [], []
    d = json.load(open(p))
    lits = [('*', r['from'], r['to'], r['rule']) for r in d.get('literal', [])]
    regs = [(re.compile(r['from']), r['to'], r['rule']) for r in d.get('regex', [])]
    return lits, regs


def _fold_canonical(m):
    """D26: the closure's parameters are bound variables; they are renamed to `acc` / `x` (the names the
    loop invariants in the contract files use) unless the closure body mentions those names itself."""
    recv, init, a, x, e = m.group(1), m.group(2), m.group(3), m.group(4), m.group(5)
    if (a, x) != ('acc', 'x'):
        ids = set(t[0] for t in alpha.toks(e) if t[3] == 'id')
        if a != x and not ({'acc', 'x'} - {a, x}) & ids:
            e = inline.rename_ids(e, {a: 'acc', x: 'x'})
            a, x = 'acc', 'x'
    return '{ let mut %s = %s; for %s in %s.iter() { %s = %s; } %s }' % (a, init, x, recv, a, e, a)


def apply_regex_rewrites(text, regs, out):
    for (rx, to, rule) in regs:
        text, n = rx.subn(_fold_canonical if rule.startswith('D26 ') else to, text)
        out.count(rule, n)
    return text


# --------------------------------------------------------------------------------------
# macro expansion (D10)

class MacroDef:
    def __init__(self, item):
        self.name = item.name
        body = item.body
        mask = code_mask(body)
        # single-arm: { (pattern) => { expansion }; }
        p = mask.find('(')
        q = match_close(mask, p)
        self.params = re.findall(r'\$([A-Za-z_][A-Za-z0-9_]*)\s*:\s*[a-z]+', body[p + 1:q])
        a = mask.find('=>', q)
        b = mask.find('{', a)
        e = match_close(mask, b)
        self.expansion = body[b + 1:e]
        if find_top(mask, e + 1, '(') >= 0 and mask.find('=>', e) >= 0:
            raise SpliceError('macro %s has more than one arm' % self.name)

    def expand(self, args_text):
        args = [a.strip() for a in split_top(args_text)]
        args = [a for a in args if a != '']
        if len(args) != len(self.params):
            raise SpliceError('macro %s: arity mismatch' % self.name)
        text = self.expansion
        for p, a in sorted(zip(self.params, args), key=lambda x: -len(x[0])):
            text = re.sub(r'\$' + p + r'\b', lambda _m, a=a: a, text)
        return text


# --------------------------------------------------------------------------------------
# module emission

def strip_doc_attrs(attrs):
    return [a for a in attrs if not re.match(r'#!?\[\s*(doc|deprecated|allow|macro_export|inline|must_use)\b', a)]


def is_cfg_test(attrs):
    return any(re.match(r'#\[cfg\(test\)\]', a) for a in attrs)


NON_TABLE = ('lib', 'aml', 'gas', 'sdt')


def implied_tags(mod, impl_ctx, name, cur):
    """Dependency closure of the property tags: an obligation is tagged with every property whose
    argument relies on it, not only with the one it was written for.
      tables:  a wrong option bit is also a wrong image (C11 => C04); an entry's emitted bytes carry
               the table's checksum, length, tiling, values and sink-independence arguments; its
               constructor sets the type code / length field the C03 walk reads; `len()` feeds the
               length and checksum deltas.
      aml:     every serialiser is part of the C06 term tree and of C14; the alternative construction
               paths (C15) and the PkgLength users (C07) too.
      sinks:   everything observed through a sink relies on that sink's contract.
      sdt:     the generic table's operations carry C01/C02/C13 together."""
    add = set()
    is_ser = (name == 'to_aml_bytes')
    if mod not in NON_TABLE:
        if 'C11' in cur:
            add.add('C04')
        if is_ser:
            add |= {'C01', 'C02', 'C03', 'C04', 'C11', 'C14'}    # ... and the option bits reach the image here
        elif name == 'len':
            add |= {'C01', 'C02', 'C03'}
        elif name.startswith('new') and ('C04' in cur or 'C03' in cur):
            add |= {'C01', 'C02', 'C03', 'C04'}     # constructors set the type code and the length field
        elif name.startswith(('add_', 'update_header', 'set_')) and (cur & {'C01', 'C02', 'C03', 'C04'}):
            add |= {'C01', 'C02', 'C03', 'C04'}
        if mod in ('hmat', 'slit') and 'C01' in (cur | add):
            add.add('C12')      # "the table checksum stays valid throughout" is part of C12
    elif mod == 'aml':
        if is_ser and impl_ctx in ('Aml for Zero', 'Aml for One', 'Aml for Byte', 'Aml for Word', 'Aml for DWord', 'Aml for QWord', 'Aml for Usize',
                                   'Aml for u8', 'Aml for u16', 'Aml for u32', 'Aml for u64', 'Aml for usize'):
            # the integer encoder also writes every BufferSize (C10 templates, C16 UUID buffers), the EISA
            # id (C16) and the elements / sizes the alternative construction paths compare (C15)
            add |= {'C10', 'C15', 'C16'}
        if impl_ctx.startswith('AmlSink for ') or 'PackageBuilder' in impl_ctx:
            # a sink, and the builder that is one: what was pushed in is what comes out
            add |= {'C06', 'C08', 'C14', 'C15'}
        elif is_ser:
            add |= {'C06', 'C14'}
        elif cur & {'C07', 'C15'} and name in ('raw', 'add_element', 'new'):
            add.add('C06')
    elif mod == 'gas':
        if 'C11' in cur:
            add.add('C04')
        if is_ser or name.startswith('new'):
            add |= {'C04', 'C10', 'C14'}
    elif mod == 'sdt':
        if impl_ctx in ('Sdt', 'AmlSink for Sdt', 'Aml for Sdt'):
            add |= {'C01', 'C02', 'C13'}
            if impl_ctx != 'Sdt':
                add.add('C14')
    elif mod == 'lib':
        if impl_ctx == 'AmlSink' or impl_ctx.startswith('AmlSink for alloc::vec::Vec'):
            # the trait's default methods and the Vec sink: every property observed through emitted bytes
            add |= {'C01', 'C02', 'C03', 'C04', 'C05', 'C06', 'C07', 'C08', 'C09', 'C10', 'C11', 'C12', 'C13', 'C14', 'C15', 'C16', 'C18'}
        elif impl_ctx == 'AmlSink for Checksum':
            add |= {'C01', 'C12', 'C14', 'C17'}
        elif impl_ctx == 'Checksum':
            add |= {'C01', 'C12', 'C17'}     # the matrices' checksums (C12) are kept by this accumulator too
        elif 'TableHeader' in impl_ctx:
            add |= {'C01', 'C02', 'C04', 'C14'}
    return add - cur


class Splicer:
    def __init__(self, repo, outdir, modules=None):
        self.repo = repo
        self.outdir = outdir
        self.out = Out()
        self.macros = {}
        self.glob_lits, self.glob_regs = load_global_rewrites()
        self.fn_index = []     # dict(module,key,covered,trusted,tags,line)
        self.modules = modules
        self.uncovered = []
        self.removed = []     # functions under contract at the baseline that no longer exist
        self.degrade = {}
        self.baseline = {}
        self.baseline_out = None
        self._fq_seen = {}
        self._helpers = {}
        self._shift_consts = {}
        self.packed = []
        self.enums = []
        self.all_enums = []   # every fieldless enum: [(variant, discriminant)] (explicit or positional)

    def load_macros(self):
        for mod in self.module_names():
            src, mask, items = parse_file(self.path_of(mod))
            for it in items:
                if it.kind == 'macro_def':
                    self.macros[it.name] = MacroDef(it)

    def module_names(self):
        src = blank_comments(open(os.path.join(self.src_dir(), 'lib.rs')).read())
        mods = re.findall(r'^\s*pub\s+mod\s+([a-z0-9_]+)\s*;', src, re.M)
        names = ['lib'] + mods
        if self.modules:
            names = [n for n in names if n in self.modules]
        return names

    def src_dir(self):
        """D0: the sources are scanned from a copy normalised by rustfmt (default style, the style the
        upstream tree is kept in and the anchors of the proof scripts are written in): layout only --
        rustfmt never changes a token other than trailing commas.  If rustfmt is missing or rejects a
        file the raw sources are used."""
        if getattr(self, '_src_dir', None):
            return self._src_dir
        raw = os.path.join(self.repo, 'src')
        self._src_dir = raw
        self.fmt_note = 'raw sources (rustfmt not applied)'
        if os.environ.get('VERIF_NO_RUSTFMT') or not shutil.which('rustfmt'):
            return raw
        dst = os.path.join(self.outdir, 'src_fmt')
        shutil.rmtree(dst, ignore_errors=True)
        shutil.copytree(raw, dst)
        files = sorted(os.path.join(dst, f) for f in os.listdir(dst) if f.endswith('.rs'))
        r = subprocess.run(['rustfmt', '--edition', '2021', '--config', 'skip_children=true'] + files,
                           stdout=subprocess.PIPE, stderr=subprocess.PIPE, text=True)
        if r.returncode != 0:
            r = subprocess.run(['rustfmt', '--edition', '2021'] + files, stdout=subprocess.PIPE, stderr=subprocess.PIPE, text=True)
        if r.returncode == 0:
            self._src_dir = dst
            self.fmt_note = 'rustfmt (default style) applied to a copy of src/ before scanning'
            self.out.count('D0 source files normalised by rustfmt before scanning (layout only)', len(files))
        return self._src_dir

    def path_of(self, mod):
        return os.path.join(self.src_dir(), mod + '.rs')

    def run(self):
        out = self.out
        self.load_macros()
        prelude = open(os.path.join(VERIF, 'contracts', 'prelude.rs')).read()
        out.emit('// GENERATED by /verif/splicer/splice.py -- do not edit')
        out.emit('#![allow(unused_imports, dead_code, unused_variables, unused_mut, non_camel_case_types, unused_parens, unused_braces, unused_assignments)]')
        out.emit('use vstd::prelude::*;')
        out.emit('extern crate alloc;')
        out.emit('verus! {')
        out.emit('global size_of usize == 8;   // verified configuration: 64-bit target (DESIGN.md section 8)')
        out.emit('pub mod vp {')
        out.emit(prelude)
        out.emit('} // mod vp')
        for mod in self.module_names():
            self.emit_module(mod)
        out.emit('} // verus!')
        out.emit('fn main() {}')
        os.makedirs(self.outdir, exist_ok=True)
        with open(os.path.join(self.outdir, 'acpi_verus.rs'), 'w') as f:
            f.write('\n'.join(out.lines) + '\n')
        with open(os.path.join(self.outdir, 'map.json'), 'w') as f:
            json.dump(dict(regions=out.regions, rewrites=out.counts, fns=self.fn_index,
                           uncovered=self.uncovered, removed=self.removed, packed=self.packed, enums=self.enums, all_enums=self.all_enums), f, indent=0)

    # ---------------------------------------------------------------------------------
    def emit_module(self, mod):
        out = self.out
        ms = parse_vspec(os.path.join(VERIF, 'contracts', mod + '.vspec'), mod)
        src, mask, items = parse_file(self.path_of(mod))
        # functions of this module without a contract: candidates for D28
        hs = {}

        def _collect(its, ctx):
            for x in its:
                if x.kind == 'fn' and x.body is not None and not is_cfg_test(x.attrs):
                    sg = parse_fn(x)
                    k = ('%s::%s' % (ctx, sg.name)) if ctx else sg.name
                    if k not in ms.fns and not (ctx and ' for ' in ctx):
                        h = inline.parse_helper(sg, x.body)
                        if h is not None:
                            h.ctx = ctx
                        hs[sg.name] = h if sg.name not in hs else None
                elif x.kind == 'impl' and x.children and not is_cfg_test(x.attrs):
                    _collect(x.children, x.name)
        _collect(items, None)
        self._helpers[mod] = {n: h for n, h in hs.items() if h is not None}
        # named bits: `const X: uN = 1 << K;` -- every body that mentions X gets the (ghost) fact
        # `1uN << K == 2^K`, proved by Verus's bit-vector mode, so that a named bit is not opaque
        sc = {}

        def _consts(its):
            for x in its:
                if x.kind == 'const' and x.head:
                    cm = re.match(r'\s*(?:pub(?:\s*\([^)]*\))?\s+)?const\s+([A-Z_][A-Z0-9_]*)\s*:\s*(u8|u16|u32|u64|usize)\s*=\s*\(?\s*1\s*<<\s*(\d+)\s*\)?\s*;?\s*$', ' '.join(x.head.split()))
                    if cm and int(cm.group(3)) < {'u8': 8, 'u16': 16, 'u32': 32, 'u64': 64, 'usize': 64}[cm.group(2)]:
                        sc[cm.group(1)] = (cm.group(2), int(cm.group(3)))
                elif x.kind == 'impl' and x.children:
                    _consts(x.children)
        _consts(items)
        self._shift_consts[mod] = sc
        root = (mod == 'lib')
        if not root:
            out.emit('pub mod %s {' % mod)
        out.emit('use crate::vp::*;')
        out.emit('use vstd::prelude::*;')
        if not root:
            out.emit('use super::*;') if False else None
        for u in ms.uses:
            out.emit(u)
        # D20: enums are hoisted to the top of the module (a Verus defect zeroes explicit
        # discriminants of an enum that follows a spec fn in the same module); item order has
        # no run-time content
        enums = [it for it in items if it.kind == 'enum' and not is_cfg_test(it.attrs)]
        for it in enums:
            ev = enum_variants(it.text[it.decl_off - it.start:] if getattr(it, 'decl_off', None) is not None else it.text)
            if ev is not None:
                self.all_enums.append(dict(module=mod, name=it.name, variants=ev))
        rest = [it for it in items if not (it.kind == 'enum' and not is_cfg_test(it.attrs))]
        uses = [it for it in rest if it.kind == 'use']
        rest = [it for it in rest if it.kind != 'use']
        self.emit_items(mod, ms, uses, None)
        self.emit_items(mod, ms, enums, None)
        out.count('D20 enum hoisted to module top', len(enums))
        d = getattr(self, '_deferred_out', None)
        if d:
            for (a, kw) in d.calls:
                out.emit(*a, **kw)
            self._deferred_out = None
        for t in ms.module_text:
            out.emit(t, fn='%s::<module text>' % mod, kind='module')
        self.emit_items(mod, ms, rest, None)
        for k, fs in ms.fns.items():
            if not fs.used:
                # a function that existed when the baseline was recorded and is gone now was removed by the
                # change under test (e.g. a helper inlined into its only caller): its obligations go with
                # it, its former callers must now prove their own contracts without it.  A contract that
                # never matched anything (not in the baseline either) is a lost anchor.
                # (Only inherent and free functions: a trait method that is no longer written out may now
                # be supplied by a derive, a blanket impl or the trait's default -- that is a replacement,
                # not a removal, and stays a lost anchor.)
                if ' for ' not in k and any(bk.startswith('%s::%s#' % (mod, k)) for bk in self.baseline):
                    self.removed.append('%s::%s' % (mod, k))
                    continue
                raise SpliceError('lost anchor: contract for `%s` in %s.vspec matches no function in /repo/src/%s.rs' % (k, mod, mod))
        for k in ms.impl_items:
            if k not in self._impls_seen.get(mod, set()):
                raise SpliceError('lost anchor: @impl `%s` in %s.vspec matches no impl block' % (k, mod))
        if not root:
            out.emit('} // mod %s' % mod)

    _impls_seen = {}
    _is_trait = {}

    def emit_items(self, mod, ms, items, impl_ctx):
        out = self.out
        for it in items:
            if is_cfg_test(it.attrs):
                out.count('D1 cfg(test) item dropped')
                continue
            attrs = strip_doc_attrs(it.attrs)
            if it.kind == 'use':
                t = ' '.join(it.head.split())
                if 'zerocopy' in t:
                    out.count('D1 use zerocopy dropped')
                    continue
                t2 = re.sub(r'\b(aml_as_bytes|assert_same_size|mutable_setter)\s*,\s*', '', t)
                t2 = re.sub(r',\s*(aml_as_bytes|assert_same_size|mutable_setter)\b', '', t2)
                if t2 != t:
                    out.count('D10 macro name removed from use list')
                    t = t2
                if re.match(r'(pub\s+)?use\s+alloc::\{?.*\bvec\b[,}]', t) and 'vec::Vec' in t:
                    # `use alloc::{vec, vec::Vec}`: the vec! macro import is replaced by vstd's
                    t = t.replace('{vec, vec::Vec}', 'vec::Vec')
                out.emit(t)
            elif it.kind == 'extern':
                continue
            elif it.kind == 'mod':
                if it.body is None:
                    continue   # `pub mod x;` in lib.rs: emitted separately
                raise SpliceError('%s: nested module %s unsupported' % (mod, it.name))
            elif it.kind == 'macro_def':
                out.count('D10 macro_rules definition consumed')
                continue
            elif it.kind == 'macro_call':
                name = it.name.split('::')[-1]
                if name == 'assert_same_size':
                    out.count('D1 assert_same_size! dropped (re-checked by Kani layout harness)')
                    continue
                if name not in self.macros:
                    raise SpliceError('%s: unknown macro %s!' % (mod, name))
                exp = self.macros[name].expand(it.body[1:-1])
                if name == 'aml_as_bytes':
                    ty = it.body[1:-1].strip()
                    ikey = 'Aml for %s' % ty
                    if ikey not in ms.impl_items:
                        ms.impl_items[ikey] = ['    open spec fn bytes(&self) -> Seq<u8> { self.raw() }']
                    fkey = ikey + '::to_aml_bytes'
                    if fkey not in ms.fns:
                        fs = FnSpec(fkey)
                        fs.tags = ['C04', 'C14']
                        ms.fns[fkey] = fs
                out.count('D10 %s! expanded' % name)
                esrc = blank_comments(exp)
                emask = code_mask(esrc)
                sub = scan_items(esrc, emask, 0, len(esrc))
                for s in sub:
                    s.line = it.line
                self.emit_items(mod, ms, sub, impl_ctx)
            elif it.kind in ('const', 'static'):
                t = bytestr_to_array(it.head, out)
                if not impl_ctx or ' for ' not in impl_ctx:
                    t = re.sub(r'^(pub(\s*\([^)]*\))?\s+)?', 'pub ', t.lstrip())
                out.emit('\n'.join(attrs + [t]))
            elif it.kind == 'type':
                t = ' '.join(it.head.split())
                if 'byteorder' in t:
                    out.count('D3 byteorder alias dropped (stand-in in prelude)')
                    continue
                out.emit('\n'.join(attrs + [t]))
            elif it.kind in ('struct', 'enum', 'union'):
                a2, had_ib, had_default = rewrite_attrs(attrs, out, it.name, ms, it.kind)
                out.emit('\n'.join(a2 + [it.text[it.decl_off - it.start:] if it.name in ms.private else publicise_struct(it.text[it.decl_off - it.start:], it.kind, out)]))
                _real_out = out
                for mk in getattr(rewrite_attrs, 'markers', []):
                    (self._deferred_out if it.kind == 'enum' and getattr(self, '_deferred_out', None) else out).emit('impl %s for %s {}' % (mk, it.name)) if it.kind != 'enum' else None
                if it.kind == 'enum':
                    out = self._deferred_out = getattr(self, '_deferred_out', None) or Deferred()
                if had_ib:
                    raw = ms.raw.get(it.name)
                    en = None
                    if it.kind == 'enum':
                        en = enum_info(it.text[it.decl_off - it.start:], attrs)
                        if en is not None:
                            en.update(module=mod, name=it.name)
                            self.enums.append(en)
                            if raw is None and en['width'] == 1:
                                raw = 'seq![*self as u8]'
                    if raw is None and it.kind == 'struct':
                        raw = auto_raw(it.text[it.decl_off - it.start:])
                        if raw is not None:
                            self.packed.append(dict(module=mod, name=it.name, fields=packed_fields(it.text[it.decl_off - it.start:])))
                            out.count('D2 raw() derived from the repr(C, packed) field order')
                    size = auto_size(it, self) if it.kind == 'struct' else (('%d' % en['width']) if (it.kind == 'enum' and en is not None) else None)
                    size_item = ('open spec fn size_spec() -> nat { %s }' % size) if size else 'uninterp spec fn size_spec() -> nat;'
                    if raw is None:
                        out.emit('impl IntoBytes for %s { uninterp spec fn raw(&self) -> Seq<u8>; %s #[verifier::external_body] fn as_bytes(&self) -> &[u8] { unimplemented!() } }' % (it.name, size_item))
                        self.uncovered.append('%s::%s (IntoBytes layout unspecified)' % (mod, it.name))
                    else:
                        out.emit('impl IntoBytes for %s {\n    open spec fn raw(&self) -> Seq<u8> { %s }\n    %s\n    #[verifier::external_body] fn as_bytes(&self) -> &[u8] { unimplemented!() }\n}' % (it.name, raw, size_item),
                                 fn='%s::%s::as_bytes' % (mod, it.name), kind='seam')
                if had_default and it.name not in ms.defaults:
                    ad = auto_default(it.text[it.decl_off - it.start:], self)
                    if ad is None:
                        raise SpliceError('%s: cannot derive a Default specification for packed struct %s' % (mod, it.name))
                    ms.defaults[it.name] = ad
                    for pk in self.packed:
                        if pk['name'] == it.name and pk['module'] == mod:
                            pk['default_zero'] = True
                if had_default:
                    out.emit('impl Default for %s {\n    #[verifier::external_body] fn default() -> (r: Self)\n        ensures %s\n    { unimplemented!() }\n}' % (it.name, ms.defaults[it.name]),
                             fn='%s::%s::default' % (mod, it.name), kind='seam')
                out = _real_out
            elif it.kind in ('impl', 'trait'):
                key = it.name if it.kind == 'impl' else it.name
                self._impls_seen.setdefault(mod, set()).add(key)
                if it.kind == 'trait':
                    self._is_trait[(mod, key)] = True
                    head = re.sub(r'^(pub\s+)?', 'pub ', ' '.join(it.head.split()))
                if it.kind != 'trait':
                    head = ' '.join(it.head.split())
                out.emit('\n'.join(attrs + [head + ' {']))
                for t in ms.impl_items.get(key, []):
                    out.emit(t, fn='%s::%s::<spec items>' % (mod, key), kind='spec')
                if it.kind == 'impl' and key.startswith('AmlSink for ') and not any('fn after' in t for t in ms.impl_items.get(key, [])):
                    out.emit('    uninterp spec fn after(&self, k: Seq<u8>) -> Seq<u8>;\n    uninterp spec fn frame(&self) -> int;')
                    self.uncovered.append('%s::%s (no after() specification)' % (mod, key))
                if it.kind == 'impl' and key.startswith('Aml for ') and not any('fn bytes' in t for t in ms.impl_items.get(key, [])):
                    tname = key[len('Aml for '):].strip()
                    if any(pk['name'] == tname and pk['module'] == mod for pk in self.packed):
                        # C14: a structure that can be added to a table through its raw in-memory form must
                        # serialise to exactly that form.  An explicit `impl Aml` for such a structure
                        # (where the pinned tree uses aml_as_bytes!) is held to the same contract.
                        out.emit('    open spec fn bytes(&self) -> Seq<u8> { self.raw() }', fn='%s::%s::<spec items>' % (mod, key), kind='spec')
                        fk = '%s::to_aml_bytes' % key
                        if fk not in ms.fns:
                            sp = FnSpec(fk)
                            sp.tags = ['C04', 'C14']
                            sp.inherited = True
                            ms.fns[fk] = sp
                        out.count('explicit impl Aml for a raw-form structure: bytes() == raw() imposed (C14)')
                    else:
                        out.emit('    uninterp spec fn bytes(&self) -> Seq<u8>;')
                        self.uncovered.append('%s::%s (no bytes() specification)' % (mod, key))
                self.emit_items(mod, ms, it.children, key)
                out.emit('}')
            elif it.kind == 'fn':
                self.emit_fn(mod, ms, it, impl_ctx, attrs)
            else:
                raise SpliceError('%s: unhandled item kind %s' % (mod, it.kind))

    # ---------------------------------------------------------------------------------
    def emit_fn(self, mod, ms, it, impl_ctx, attrs):
        out = self.out
        sig = parse_fn(it)
        key = ('%s::%s' % (impl_ctx, sig.name)) if impl_ctx else sig.name
        fq = '%s::%s' % (mod, key)
        spec = ms.fns.get(key)
        if spec:
            spec.used = True
        elif impl_ctx and impl_ctx.startswith('AmlSink for ') and it.body is not None and ms.fns.get('%s::byte' % impl_ctx):
            # an override of a defaulted sink method (word/dword/qword/vec) that has no contract of its
            # own is still bound by the trait's: verify its body against the inherited postcondition
            # (an external_body would *assume* it).  Tagged like the impl's `byte`.
            sib = ms.fns['%s::byte' % impl_ctx]
            spec = FnSpec(key)
            spec.tags = sorted(set(sib.tags or []) | set(t for (tg, _) in sib.ensures for t in tg) | {'C14'})
            spec.used = True
            spec.inherited = True
            out.count('sink method override without own contract: verified against the inherited trait contract')
        attrs = [a for a in attrs if not re.match(r'#\[cfg\(target_pointer_width', a)]
        params = sig.params
        mut_self = bool(re.match(r'\s*mut\s+self\b', params))
        if mut_self:
            params = re.sub(r'^\s*mut\s+self\b', 'self', params)
            out.count('D11 mut self receiver')
        params = ' '.join(params.split())
        reserved = [w for w in ('int', 'nat') if re.search(r'(^|[(,\s])%s\s*:' % w, params)]
        for w in reserved:
            params = re.sub(r'\b%s\b(?=\s*:)' % w, w + '_v', params)
            out.count('D18 identifier `%s` (Verus builtin type name) renamed' % w)
        raw_params = re.findall(r'(?:^|[(,\s])r#([a-z_]+)\s*:', params)
        for w in raw_params:
            params = re.sub(r'\br#%s\b(?=\s*:)' % w, w + '_v', params)
            out.count('D18 raw-identifier parameter `r#%s` renamed (Verus/AIR mishandles it)' % w)
        ret = ''
        if sig.ret is not None:
            if spec and (spec.ensures or spec.trusted):
                ret = ' -> (%s: %s)' % (spec.name, ' '.join(sig.ret.split()))
            else:
                ret = ' -> %s' % ' '.join(sig.ret.split())
        prefix = ' '.join(sig.prefix.split())
        if not (impl_ctx and (' for ' in impl_ctx or self._is_trait.get((mod, impl_ctx)))):
            prefix = re.sub(r'^pub(\s*\([^)]*\))?\s*', '', prefix)
            prefix = ('pub ' + prefix).strip()
        header = '%s%sfn %s%s(%s)%s' % (prefix, ' ' if prefix else '', sig.name, sig.generics, params, ret)
        if sig.where:
            header += ' ' + sig.where
        covered = spec is not None
        if spec and re.search(r'\bsink\s*:\s*&mut\s+dyn\s+AmlSink', params):
            for ls in spec.loops.values():
                if not any('sink.frame()' in t for (_, t) in ls['invariant']):
                    ls['invariant'].append(([], 'sink.frame() == old(sink).frame()'))
        if spec and not getattr(spec, '_implied_done', False):
            # a property's check must see every obligation its argument depends on (DESIGN.md section 4a)
            spec._implied_done = True
            def close(tg):
                tg = set(tg)
                for _ in range(3):
                    tg |= implied_tags(mod, impl_ctx or '', sig.name, tg)
                return tg
            spec.ensures = [((sorted(close(tg)) if tg else tg), t) for (tg, t) in spec.ensures]
            cur = set(t for (tg, _) in spec.ensures for t in tg) | set(spec.tags or [])
            full = close(cur)
            if spec.tags is not None or full != cur or cur:
                spec.tags = sorted(full)      # the body's obligations support every clause
        tags_all = sorted(set(t for (tg, _) in (spec.ensures + spec.requires if spec else []) for t in tg) | set(spec.tags or [] if spec else []))
        rec = dict(module=mod, key=key, fq=fq, covered=covered, trusted=bool(spec and spec.trusted),
                   tags=tags_all, body_tags=(spec.tags if spec and spec.tags is not None else tags_all),
                   overflow_tags=(spec.overflow_tags if spec else None),
                   src_line=it.line, has_body=it.body is not None)
        self.fn_index.append(rec)
        if getattr(spec, 'inherited', False):
            rec['nohints'] = 'new trait-method implementation without a contract of its own: held to the inherited one, no proof script exists for it'
        if it.body is None:
            # trait method declaration
            out.emit('\n'.join(attrs + [header]))
            self.emit_clauses(fq, spec)
            out.emit(';')
            return
        if not covered:
            self.uncovered.append(fq)
            out.emit('\n'.join(attrs + ['#[verifier::external_body]', header + ' { unimplemented!() }']))
            return
        if spec.trusted:
            out.emit('\n'.join(attrs + spec.attrs + ['#[verifier::external_body]', header]), fn=fq, kind='trusted')
            self.emit_clauses(fq, spec)
            out.emit('{ unimplemented!() }')
            rec['trusted_reason'] = spec.trusted
            return
        start_line = len(out.lines) + 1
        degrade_reason = None
        dg = self.degrade.get(fq)
        nohints_reason = None
        if isinstance(dg, dict) and dg.get('level') == 'nohints':
            nohints_reason = dg.get('reason', '')
            dg = None
        if dg is not None:
            degrade_reason = dg
        else:
            occ = self._fq_seen.get(fq, 0)
            self._fq_seen[fq] = occ + 1
            bkey = '%s#%d' % (fq, occ)
            if self.baseline_out is not None:
                self.baseline_out[bkey] = it.body
            if self.baseline.get(bkey) is not None and it.body != self.baseline[bkey] and not inline.same_tokens(it.body, self.baseline[bkey]):
                # D28: calls to contract-less helpers of this module un-extracted, if that gives back the baseline
                own = (impl_ctx or '').split(' for ')[-1].strip() or None
                cand = {n: h for n, h in self._helpers.get(mod, {}).items()
                        if h.ctx == own and re.search(r'\b%s\s*\(' % re.escape(n), it.body)}
                if cand:
                    try:
                        new_body, done = inline.inline_calls(it.body, cand)
                    except Exception:
                        new_body, done = it.body, []
                    if done:
                        restored, ren = alpha.alpha_restore(new_body, self.baseline[bkey])
                        if inline.same_tokens(restored, self.baseline[bkey]):
                            it = copy.copy(it)
                            it.body = self.baseline[bkey]
                            rec['uninlined'] = sorted(set(done))
                            out.count('D28 calls to contract-less helpers un-extracted: the result is the baseline body (token-identical modulo renamed locals)', len(done))
            if self.baseline.get(bkey) is not None and it.body != self.baseline[bkey]:
                restored, ren = alpha.alpha_restore(it.body, self.baseline[bkey])
                if ren:
                    it = copy.copy(it)
                    it.body = restored
                    rec['alpha_renamed'] = ren
                    out.count('D27 body-local variables renamed back to the names of the proof script (alpha-equivalent)')
            if nohints_reason is None:
                try:
                    body = self.rewrite_body(it, key, ms, spec, fq, mut_self, reserved, raw_params)
                except SpliceError as e:
                    nohints_reason = str(e)
            if nohints_reason is not None:
                # the proof script (hints / ghost lets) no longer applies to this function's text.
                # First fall back to the bare contract: requires/ensures (and loop invariants) without
                # the in-body proof hints.  If the solver proves it unaided nothing is lost.
                bare = copy.copy(spec)
                bare.hints, bare.top, bare.end = [], [t for t in spec.top if t.strip().startswith('broadcast use')], []
                bare.loops = {n: dict(ls, top=[], end=[]) for n, ls in spec.loops.items()}
                try:
                    body = self.rewrite_body(it, key, ms, bare, fq, mut_self, reserved, raw_params)
                    rec['nohints'] = nohints_reason
                except SpliceError as e:
                    degrade_reason = nohints_reason + ' ; without hints: ' + str(e)
        if degrade_reason is not None:
            # the proof script (hints / invariants / rewrite anchors) no longer applies to this
            # function's text: its contract is kept as an *assumption* so that the rest of the crate
            # can still be checked, and every obligation of the function is reported undischarged
            out.emit('\n'.join(attrs + ['#[verifier::external_body]', header]), fn=fq, kind='degraded')
            self.emit_clauses(fq, spec)
            out.emit('{ unimplemented!() }')
            rec['degraded'] = degrade_reason
            rec['gen_start'] = start_line
            rec['gen_end'] = len(out.lines)
            return
        out.emit('\n'.join(attrs + spec.attrs + [header]))
        self.emit_clauses(fq, spec)
        out.emit(body, fn=fq, kind='body', tags=rec['body_tags'], src='%s.rs:%d' % (mod, it.line))
        rec['gen_start'] = start_line
        rec['gen_end'] = len(out.lines)

    def rewrite_body(self, it, key, ms, spec, fq, mut_self, reserved, raw_params=()):
        out = self.out
        body = it.body
        body = rename_raw_idents(body, out)
        for w in reserved:
            bm = code_mask(body)
            body = ''.join(w + '_v' if i % 2 else piece for i, piece in enumerate(re.split(r'\b(%s)\b' % w, body)))
        # D12/D13 and other per-fn literal rewrites first (they may introduce loops)
        body = apply_literal_rewrites(body, key, ms, out, self.glob_lits)
        body = apply_regex_rewrites(body, self.glob_regs, out)
        body = bytestr_to_array(body, out)
        body = rewrite_macros_panics(body, spec.refuses, out)
        if mut_self:
            body = rename_self(body)
        body = apply_hints(body, spec, fq)
        bc = None if spec.nobroadcast else ms.broadcast
        body = rewrite_loops(body, spec, fq, out, bc)
        body = re.sub(r'@@LOOP\d+@@', '', body)
        # drop cfg(target_pointer_width) arms other than 64 (statement attributes)
        body = re.sub(r'#\[cfg\(target_pointer_width\s*=\s*"(16|32)"\)\]\s*[^;]*;', '', body)
        body = re.sub(r'#\[cfg\(target_pointer_width\s*=\s*"64"\)\]\s*', '', body)
        top = []
        if mut_self:
            top.append('let mut __self = self;')
        for cn, (ct, ck) in sorted(self._shift_consts.get(fq.split('::')[0], {}).items()):
            if re.search(r'\b%s\b' % cn, body):
                top.append('proof { assert(1%s << %d == %d%s) by (bit_vector); }' % (ct, ck, 1 << ck, ct))
                out.count('proof aid: value of a named bit (`const X = 1 << K`) stated where X is used')
        if bc:
            top.append('broadcast use {%s};' % bc)
        top.extend(spec.top)
        if top:
            body = '{\n' + '\n'.join(top) + body[1:]
        if spec.end:
            body = body.rstrip()
            body = body[:-1] + '\n' + '\n'.join(spec.end) + '\n}'
        return body

    def emit_clauses(self, fq, spec):
        out = self.out
        if not spec:
            return
        if spec.requires:
            out.emit('    requires')
            for (tags, t) in spec.requires:
                out.emit('        %s,' % t, fn=fq, kind='requires', tags=tags)
        if spec.ensures:
            out.emit('    ensures')
            for (tags, t) in spec.ensures:
                out.emit('        %s,' % t, fn=fq, kind='ensures', tags=tags)
        if spec.decreases:
            out.emit('    decreases %s' % spec.decreases)


def main():
    import argparse
    ap = argparse.ArgumentParser()
    ap.add_argument('--repo', default='/repo')
    ap.add_argument('--out', required=True)
    ap.add_argument('--modules', default=None)
    ap.add_argument('--degrade', default=None, help='JSON file {fq: reason}')
    ap.add_argument('--write-baseline', default=None, help='record every covered function body (D27 baseline) to this JSON file')
    a = ap.parse_args()
    mods = a.modules.split(',') if a.modules else None
    try:
        s = Splicer(a.repo, a.out, mods)
        if a.degrade:
            s.degrade = json.load(open(a.degrade))
        bp = os.path.join(os.path.dirname(os.path.dirname(os.path.abspath(__file__))), 'contracts', 'baseline.json')
        if a.write_baseline:
            s.baseline_out = {}
        elif os.path.exists(bp):
            s.baseline = json.load(open(bp))
        s.run()
        if a.write_baseline:
            json.dump(s.baseline_out, open(a.write_baseline, 'w'), indent=0, sort_keys=True)
    except (SpliceError, ScanError) as e:
        print('SPLICE-ERROR: %s' % e)
        sys.exit(2)
    print('spliced %d lines, %d fns (%d under contract), rewrites: %s' % (
        len(s.out.lines), len(s.fn_index), sum(1 for f in s.fn_index if f['covered']), json.dumps(s.out.counts)))


if __name__ == '__main__':
    main()
