// Kani harnesses for the assumed contracts of /repo/src/tpm2.rs (child module of tpm2).
use super::*;
use zerocopy::IntoBytes;

/// D14 (@default Tpm2): derived Default = zero header, zero accumulator, Client, LegacyUse, no log area
#[kani::proof]
#[kani::unwind(38)]
fn default_tpm2() {
    let r = Tpm2::default();
    let hb = r.header.as_bytes();
    assert!(hb.len() == 36);
    let mut i = 0;
    while i < 36 {
        assert!(hb[i] == 0);
        i += 1;
    }
    assert!(r.checksum.value() == 0);
    assert!(r.platform_class == PlatformClass::Client);
    assert!(r.crb_or_fifo_base == 0);
    assert!(r.start_method == StartMethod::LegacyUse);
    assert!(r.start_method_params == [0u8; 12]);
    assert!(r.start_method_param_len == 0);
    assert!(r.log_area_min_len.is_none() && r.log_area_start_addr.is_none());
}
