"""Kani stage: prove the leaf contracts (seams) assumed by the Verus crate on the *real*
compiled crate.  A scratch copy of /repo gets one line per module
    #[cfg(kani)] #[path = "/verif/kani/<m>.rs"] mod verif_kani;
appended to src/<m>.rs (child modules see private items); nothing else differs."""
import json
import os
import re
import shutil
import subprocess
import tempfile
import time

VERIF = os.path.dirname(os.path.dirname(os.path.abspath(__file__)))


def load_registry(tier):
    reg = json.load(open(os.path.join(VERIF, 'kani', 'registry.json')))['harnesses']
    return [h for h in reg if tier == 'thorough' or h.get('tier', 'quick') == 'quick']


def prepare(repo, tmp, modules):
    dst = os.path.join(tmp, 'crate')
    shutil.copytree(repo, dst, ignore=shutil.ignore_patterns('target', '.git', 'rust-vmm-ci'))
    for m in modules:
        hp = os.path.join(VERIF, 'kani', m + '.rs')
        sp = os.path.join(dst, 'src', m + '.rs')
        if not os.path.exists(sp):
            continue
        with open(sp, 'a') as f:
            f.write('\n#[cfg(kani)]\n#[path = "%s"]\nmod verif_kani;\n' % hp)
    os.makedirs(os.path.join(dst, '.cargo'), exist_ok=True)
    with open(os.path.join(dst, '.cargo', 'config.toml'), 'w') as f:
        f.write('[net]\noffline = true\n')
    return dst


def run_one(dst, env, h, playback=False, timeout=1500):
    cmd = ['cargo', 'kani', '--harness', 'verif_kani::' + h['name'], '--output-format', 'terse']
    if playback:
        cmd += ['-Z', 'concrete-playback', '--concrete-playback=print']
    t0 = time.time()
    try:
        r = subprocess.run(cmd, cwd=dst, env=env, stdout=subprocess.PIPE, stderr=subprocess.STDOUT, text=True, timeout=timeout)
        out = r.stdout
    except subprocess.TimeoutExpired as e:
        return dict(status='timeout', output=(e.stdout or '')[-1500:] if isinstance(e.stdout, str) else '', seconds=time.time() - t0)
    dt = time.time() - t0
    if h.get('mode') == 'refusal':
        # refusal harness: the call under test must never return.  Pass iff the only failed
        # checks are explicit panics of the code under test: not the VERIF-RETURNED marker, and not
        # an overflow trap (absent in release builds, so it does not count as a refusal).
        if 'VERIFICATION:- SUCCESSFUL' in out:
            st = 'error'   # vacuous: nothing panicked and the marker was unreachable
            out += '\n[refusal harness vacuous: no input reached the call]'
        elif 'VERIFICATION:- FAILED' in out:
            checks = re.findall(r'Failed Checks: ([^\n]*)', out)
            bad = [c for c in checks if 'VERIF-RETURNED' in c or 'overflow' in c or 'out of bounds' in c or 'divi' in c]
            st = 'failed' if bad else 'ok'
        else:
            st = 'error'
    elif 'VERIFICATION:- SUCCESSFUL' in out:
        st = 'ok'
    elif 'VERIFICATION:- FAILED' in out:
        st = 'failed'
    else:
        st = 'error'
    return dict(status=st, output=out[-4000:], seconds=round(dt, 1))


def run(build, tier, repo):
    t0 = time.time()
    reg = load_registry(tier)
    if not reg:
        return dict(status='absent', harnesses=[], cmd='(no kani harnesses registered)')
    tmp = tempfile.mkdtemp(prefix='verif-kani-')
    res = []
    try:
        modules = sorted(set(h['module'] for h in reg))
        dst = prepare(repo, tmp, modules)
        env = dict(os.environ, CARGO_NET_OFFLINE='true', CARGO_TARGET_DIR=os.path.join(tmp, 'target'))
        # build once (sequential) so that the parallel runs below only do the per-harness work
        first = run_one(dst, env, reg[0])
        results = {reg[0]['name']: first}
        from concurrent.futures import ThreadPoolExecutor
        with ThreadPoolExecutor(max_workers=8) as ex:
            futs = {h['name']: ex.submit(run_one, dst, env, h) for h in reg[1:]}
            for n, f in futs.items():
                results[n] = f.result()
        for h in reg:
            r = results[h['name']]
            entry = dict(h)
            entry.update(status=r['status'], seconds=r.get('seconds'))
            if r['status'] == 'failed':
                pb = run_one(dst, env, h, playback=True)
                entry['output'] = r['output'][-2500:]
                entry['counterexample'] = parse_playback(pb.get('output', ''))
            elif r['status'] != 'ok':
                entry['output'] = r.get('output', '')[-2500:]
            res.append(entry)
    finally:
        shutil.rmtree(tmp, ignore_errors=True)
    ver = subprocess.run(['cargo', 'kani', '--version'], stdout=subprocess.PIPE, stderr=subprocess.STDOUT, text=True).stdout.strip().splitlines()
    return dict(status='ok', harnesses=res, wall_s=round(time.time() - t0, 1), version=ver[-1] if ver else None,
                cmd='cargo kani --harness verif_kani::<h> --output-format terse (scratch copy of /repo + #[cfg(kani)] #[path] mod verif_kani per module)')


def parse_playback(out):
    """Extract the concrete values Kani prints for each kani::any() of a failing harness."""
    m = re.search(r'Concrete playback unit test for `[^`]*`:\s*```(.*?)```', out, re.S)
    if not m:
        failed = re.findall(r'Failed Checks:[^\n]*', out)
        return dict(note='no concrete playback produced', failed_checks=failed[:5]) if failed else None
    body = m.group(1)
    vals = []
    for vm in re.finditer(r'//\s*(.+?)\n\s*vec!\[([^\]]*)\]', body):
        vals.append(dict(value=vm.group(1).strip(), bytes=vm.group(2).strip()))
    return dict(playback_test=body.strip()[:3000], values=vals, failed_checks=re.findall(r'Failed Checks:[^\n]*', out)[:5])
