"""D28: un-extraction of contract-less private helpers (baseline-checked).

When a verified body now calls a function that has no contract (typically a private helper that a
refactoring extracted from that very body), the modular proof cannot see through the call.  This
module inlines such calls *textually* and hands the result to the alpha-renaming check of D27: only if
the inlined body is, token for token (modulo renamed locals), the recorded baseline body is it used --
then what is verified is the baseline body, and the claim "the current code behaves like the inlined
text" rests on the restrictions below, which make textual inlining of a Rust call semantics-preserving:

  * the helper is a non-generic, non-recursive fn of the same module / impl, without `return`, `?`,
    labels or macros that could hide them (`return` inside closures is not distinguished: rejected);
  * every argument is a *pure place expression*: a path of identifiers and field accesses, optionally
    under `&` / `&mut` / `*`, a literal, or such a place followed by a whitelisted pure method call
    (`as_bytes() len() get() as_slice() clone()`) -- so evaluating it later, or more than once, or not
    at all, gives the same value and has no effect; Rust's borrow rules guarantee the helper cannot
    mutate a place it only received by shared reference or by value;
  * parameters are substituted simultaneously; a `&`/`&mut` argument substitutes its place where the
    parameter is the receiver of `.` (auto-ref/deref) and the reference expression elsewhere;
  * names bound inside the helper (`let`, `for`, match/closure patterns are not analysed: any binder
    found by the same rule as D27) must not occur in the caller outside the call's own `let` pattern,
    so that inlining cannot capture or shadow a caller variable;
  * `let (a, b) = (a, b);` left behind by a tuple-returning helper is dropped.

Anything outside these rules leaves the body untouched (the caller is then a lost proof: exit 2)."""
import re

from rustscan import code_mask, match_close, split_top
from alpha import toks, KEYWORDS

PURE_METHODS = ('as_bytes', 'len', 'get', 'as_slice', 'clone')
ARG_RE = re.compile(r'^(?:&\s*mut\s+|&\s*|\*\s*)*(?:self|[A-Za-z_][A-Za-z0-9_]*)(?:\s*\.\s*(?:[A-Za-z_][A-Za-z0-9_]*|\d+))*(?:\s*\.\s*(?:%s)\s*\(\s*\))?$' % '|'.join(PURE_METHODS))
LIT_RE = re.compile(r'^(?:\d[A-Za-z0-9_]*|true|false|\'.\')$')


class Helper:
    def __init__(self, name, params, body, has_self, ret):
        self.name, self.params, self.body, self.has_self, self.ret = name, params, body, has_self, ret
        self.ctx = None       # impl type the helper belongs to (None: free function)


def parse_helper(sig, body):
    """sig: rustscan FnSig; body: text incl. braces.  None if the helper is outside the rules."""
    if sig.generics or sig.where:
        return None
    mask = code_mask(body)
    if re.search(r'\breturn\b|\?|\bbreak\s+\'|\bcontinue\s+\'|\basync\b|\bawait\b|\bunsafe\b', mask):
        return None
    if re.search(r'\b%s\s*\(' % re.escape(sig.name), mask):
        return None          # recursive
    params = []
    has_self = False
    for p in split_top(sig.params):
        p = ' '.join(p.split())
        if not p:
            continue
        if re.match(r'^(&\s*(mut\s+)?)?self$', p):
            has_self = True
            continue
        m = re.match(r'^([A-Za-z_][A-Za-z0-9_]*)\s*:\s*(.+)$', p)
        if not m or m.group(1) in KEYWORDS:
            return None      # patterns / `mut x` parameters: not handled
        params.append((m.group(1), m.group(2)))
    return Helper(sig.name, params, body, has_self, sig.ret)


def binders(body):
    tn = toks(body)
    out = set()
    for i, t in enumerate(tn):
        if t[3] == 'id' and t[0] not in KEYWORDS:
            p1 = tn[i - 1][0] if i else ''
            p2 = tn[i - 2][0] if i > 1 else ''
            if p1 in ('let', 'for') or (p1 == 'mut' and p2 == 'let'):
                out.add(t[0])
    return out


def rename_ids(text, ren):
    """rename identifiers (not after `.` / `::`)"""
    if not ren:
        return text
    tn = toks(text)
    out = text
    for i in range(len(tn) - 1, -1, -1):
        t, s, e, k = tn[i]
        if k == 'id' and t in ren and not (i and tn[i - 1][0] in ('.', '::')):
            out = out[:s] + ren[t] + out[e:]
    return out


def subst(body, mapping):
    """simultaneous substitution of parameter identifiers (not after `.` / `::`) by argument text"""
    tn = toks(body)
    out = body
    for i in range(len(tn) - 1, -1, -1):
        t, s, e, k = tn[i]
        if k != 'id' or t not in mapping:
            continue
        prev = tn[i - 1][0] if i else ''
        nxt = tn[i + 1][0] if i + 1 < len(tn) else ''
        if prev in ('.', '::'):
            continue
        arg = mapping[t]
        m = re.match(r'^&\s*(?:mut\s+)?(.*)$', arg)
        if m and nxt == '.':
            rep = m.group(1)            # receiver position: the place itself (auto-ref)
        elif nxt == '.' and re.match(r'^\*', arg):
            rep = '(' + arg + ')'
        else:
            rep = arg
        out = out[:s] + rep + out[e:]
    return out


def split_tail(inner):
    """statements text and tail expression of a block's inside (tail may be '')"""
    mask = code_mask(inner)
    depth = 0
    last = -1
    for i, c in enumerate(mask):
        if c in '([{':
            depth += 1
        elif c in ')]}':
            depth -= 1
            if c == '}' and depth == 0:
                # a block statement (for/if/match ...) ends here; what follows may be a tail
                j = i + 1
                while j < len(mask) and mask[j].isspace():
                    j += 1
                if j >= len(mask) or mask[j] != '.':
                    last = max(last, i)
        elif c == ';' and depth == 0:
            last = max(last, i)
    return inner[:last + 1], inner[last + 1:].strip()


def inline_calls(body, helpers, self_ty_prefixes=('Self::',)):
    """Inline every call to a helper in `helpers` (dict name -> Helper) found in `body`.
    Returns (new_body, [names]) or (body, []) if nothing could be inlined."""
    done = []
    for _ in range(8):
        mask = code_mask(body)
        hit = None
        for name, h in helpers.items():
            for m in re.finditer(r'(?:(self)\s*\.\s*|Self\s*::\s*|(?<![A-Za-z0-9_:.]))%s\s*\(' % re.escape(name), mask):
                hit = (h, m)
                break
            if hit:
                break
        if not hit:
            break
        h, m = hit
        recv_self = m.group(1) is not None
        if recv_self != h.has_self:
            return body, []
        called_bare = not recv_self and not re.match(r'Self\s*::', mask[m.start():])
        if called_bare != (h.ctx is None):
            return body, []
        op = m.end() - 1
        cl = match_close(mask, op)
        args = [' '.join(a.split()) for a in split_top(body[op + 1:cl]) if a.strip()]
        if len(args) != len(h.params):
            return body, []
        for a in args:
            if not (ARG_RE.match(a) or LIT_RE.match(a)):
                return body, []
        # no identifier of an argument may be captured by a binder of the helper (match / closure
        # patterns are not analysed, so: the helper must not mention those identifiers at all)
        def free_ids(text, drop=()):
            tn = toks(text)
            return set(t[0] for i, t in enumerate(tn) if t[3] == 'id' and t[0] not in KEYWORDS and t[0] not in drop
                       and not (i and tn[i - 1][0] in ('.', '::')))
        if free_ids(' , '.join(args)) & free_ids(h.body, drop=[p for (p, _) in h.params]):
            return body, []
        # statement context of the call
        ss = m.start()
        j = ss - 1
        while j >= 0 and mask[j].isspace():
            j -= 1
        k = cl + 1
        while k < len(mask) and mask[k].isspace():
            k += 1
        # the helper's own binders are renamed apart for this instance (alpha-conversion inside the
        # inlined copy), so that two inlined copies, or a copy and the caller, never share a local
        bnd0 = binders(h.body)
        inst = len(done) + 1
        fresh = {b: '%s__h%d' % (b, inst) for b in bnd0 if b not in [p for (p, _) in h.params]}
        hbody = rename_ids(h.body, fresh)
        inner = hbody.strip()[1:-1]
        stmts, tail = split_tail(inner)
        mapping = {p: a for (p, _), a in zip(h.params, args)}
        bnd = set(fresh.values())
        rest = body[:ss] + body[cl + 1:]
        lm = re.search(r'\blet\s+(\([^()]*\)|(?:mut\s+)?[A-Za-z_][A-Za-z0-9_]*)\s*(?::[^=;]+)?=\s*$', mask[:ss])
        if lm and k < len(mask) and mask[k] == ';':
            pat = body[lm.start(1):lm.end(1)]
            rest = body[:lm.start()] + body[k + 1:]
            pat_names = set(re.findall(r'[A-Za-z_][A-Za-z0-9_]*', pat)) - {'mut'}
            if (bnd - pat_names) & set(t[0] for t in toks(rest) if t[3] == 'id'):
                return body, []
            if not tail:
                return body, []
            s_st, s_tail = subst(stmts, mapping), subst(tail, mapping)
            pn = re.findall(r'[A-Za-z_][A-Za-z0-9_]*', pat)
            tn_ = re.findall(r'[A-Za-z_][A-Za-z0-9_]*', s_tail)
            shape = lambda x: re.sub(r'[A-Za-z_][A-Za-z0-9_]*', 'X', ''.join(x.split()))
            arg_ids = set(t[0] for a in args for t in toks(a) if t[3] == 'id')
            if ('mut' not in pn and shape(pat) == shape(s_tail) and len(pn) == len(tn_) and len(set(tn_)) == len(tn_)
                    and all(x in bnd for x in tn_) and not (set(pn) & arg_ids)
                    and not (set(pn) & set(t[0] for t in toks(hbody) if t[3] == 'id'))):
                # `let (a, b) = helper(..)` where the helper returns its own locals: those locals *are*
                # a and b from here on; name them so and drop the rebinding
                new = rename_ids(s_st, dict(zip(tn_, pn)))
            else:
                new = s_st + '\n let ' + pat + ' = ' + s_tail + ';'
            body = body[:lm.start()] + new + body[k + 1:]
        elif (j < 0 or mask[j] in ';{}') and k < len(mask) and mask[k] == ';':
            if bnd & set(t[0] for t in toks(rest) if t[3] == 'id'):
                return body, []
            new = subst(stmts, mapping)
            if tail:
                new += '\n' + subst(tail, mapping) + ';'
            body = body[:ss] + new + body[k + 1:]
        else:
            return body, []
        done.append(h.name)
    return body, done


def same_tokens(a, b):
    return [t[0] for t in toks(a)] == [t[0] for t in toks(b)]
