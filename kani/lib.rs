// Kani harnesses for the seams of /repo/src/lib.rs (child module of the crate root).
extern crate alloc;
use super::*;
use alloc::vec::Vec;

fn sum(d: &[u8]) -> u32 {
    let mut s = 0u32;
    let mut i = 0;
    while i < d.len() {
        s += d[i] as u32;
        i += 1;
    }
    s
}

/// seam generate_checksum: (sum(data) + r) % 256 == 0 -- BOUNDED: len <= 24
#[kani::proof]
#[kani::unwind(26)]
fn generate_checksum_bounded() {
    let data: [u8; 24] = kani::any();
    let n: usize = kani::any();
    kani::assume(n <= 24);
    let r = generate_checksum(&data[..n]);
    assert!((sum(&data[..n]) + r as u32) % 256 == 0);
}

/// seam TableHeader layout (D2): size 36 and as_bytes() == hdr36(fields)
#[kani::proof]
#[kani::unwind(38)]
fn layout_table_header() {
    assert!(core::mem::size_of::<TableHeader>() == 36);
    assert!(TableHeader::len() == 36);
    let h = TableHeader {
        signature: kani::any(),
        length: U32::new(kani::any()),
        revision: kani::any(),
        checksum: kani::any(),
        oem_id: kani::any(),
        oem_table_id: kani::any(),
        oem_revision: U32::new(kani::any()),
        creator_id: kani::any(),
        creator_revision: kani::any(),
    };
    let mut e: Vec<u8> = Vec::new();
    e.extend_from_slice(&h.signature);
    e.extend_from_slice(&h.length.get().to_le_bytes());
    e.push(h.revision);
    e.push(h.checksum);
    e.extend_from_slice(&h.oem_id);
    e.extend_from_slice(&h.oem_table_id);
    e.extend_from_slice(&h.oem_revision.get().to_le_bytes());
    e.extend_from_slice(&h.creator_id);
    e.extend_from_slice(&h.creator_revision);
    assert!(h.as_bytes() == e.as_slice());
}

/// shims D3/D7: zerocopy U32 get/set/new/from and integer as_bytes()/to_le_bytes() are the
/// little-endian encodings le16/le32/le64 of the prelude
#[kani::proof]
fn zc_and_le_shims() {
    let x: u32 = kani::any();
    let mut u = U32::new(x);
    assert!(u.get() == x);
    let y: u32 = kani::any();
    u.set(y);
    assert!(u.get() == y);
    let f: U32 = y.into();
    assert!(f.get() == y);
    let le32 = [(x & 0xff) as u8, ((x >> 8) & 0xff) as u8, ((x >> 16) & 0xff) as u8, ((x >> 24) & 0xff) as u8];
    assert!(x.to_le_bytes() == le32);
    assert!(x.as_bytes() == &le32[..]);
    assert!(U32::new(x).as_bytes() == &le32[..]);
    let w: u16 = kani::any();
    let le16 = [(w & 0xff) as u8, ((w >> 8) & 0xff) as u8];
    assert!(w.to_le_bytes() == le16);
    assert!(w.as_bytes() == &le16[..]);
    let q: u64 = kani::any();
    let le64 = [(q & 0xff) as u8, ((q >> 8) & 0xff) as u8, ((q >> 16) & 0xff) as u8, ((q >> 24) & 0xff) as u8,
                ((q >> 32) & 0xff) as u8, ((q >> 40) & 0xff) as u8, ((q >> 48) & 0xff) as u8, ((q >> 56) & 0xff) as u8];
    assert!(q.to_le_bytes() == le64);
    assert!(q.as_bytes() == &le64[..]);
}

/// D14 (@default Checksum): derived Default is the zero accumulator
#[kani::proof]
fn default_checksum() {
    let c = Checksum::default();
    assert!(c.value == 0);
}
