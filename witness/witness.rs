// Witness scenarios for the falsifier stage (DESIGN.md section 6).  Each #[test] is an
// executable oracle of a *property* over the public API at boundary parameters.  They run
// only after a Verus/Kani obligation has failed, to attach a concrete failing input to the
// VIOLATION (or to confirm a known finding); they never make a check pass.
#![allow(dead_code, unused_imports)]
use acpi_tables::aml::*;
use acpi_tables::{Aml, AmlSink};
use std::panic::{catch_unwind, AssertUnwindSafe};

fn ser(a: &dyn Aml) -> Vec<u8> {
    let mut v = Vec::new();
    a.to_aml_bytes(&mut v);
    v
}
fn refuses<F: FnOnce() -> Vec<u8>>(f: F) -> Result<(), Vec<u8>> {
    match catch_unwind(AssertUnwindSafe(f)) {
        Err(_) => Ok(()),
        Ok(b) => Err(b),
    }
}
fn pkg_decode(b: &[u8]) -> (usize, usize) {
    let follow = (b[0] >> 6) as usize;
    if follow == 0 {
        return ((b[0] & 0x3f) as usize, 1);
    }
    let mut v = (b[0] & 0x0f) as usize;
    for i in 0..follow {
        v |= (b[1 + i] as usize) << (4 + 8 * i);
    }
    (v, follow + 1)
}
struct Raw(Vec<u8>);
impl Aml for Raw {
    fn to_aml_bytes(&self, sink: &mut dyn AmlSink) {
        sink.vec(&self.0);
    }
}
fn path_n(n: usize) -> String {
    (0..n).map(|i| format!("S{:03}", i % 1000)).collect::<Vec<_>>().join(".")
}

// ---- C06
#[test]
fn c06_power_resource_opcode() {
    let b = ser(&PowerResource::new("PWR0".into(), 1, 2, vec![]));
    assert_eq!(&b[0..2], &[0x5b, 0x84], "DefPowerRes := ExtOpPrefix(0x5B) 0x84 ...: got {:02x?}", &b[..2]);
    let (len, w) = pkg_decode(&b[2..]);
    assert_eq!(len, b.len() - 2, "PkgLength");
    assert_eq!(&b[2 + w..2 + w + 4], b"PWR0");
}

// ---- C10
#[test]
fn c10_register_length_field() {
    use acpi_tables::gas::*;
    let b = ser(&Register::new(GAS::new(AddressSpace::SystemMemory, 32, 0, AccessSize::DwordAccess, 0x1000)));
    assert_eq!(b[0], 0x82);
    let declared = u16::from_le_bytes([b[1], b[2]]) as usize;
    assert_eq!(declared, b.len() - 3, "Generic Register Descriptor length field {} but {} payload bytes follow", declared, b.len() - 3);
}

// ---- C18
#[test]
fn c18_path_256_segments_refused() {
    let p = Path::new(&path_n(256));
    let r = refuses(|| ser(&p));
    assert!(r.is_ok(), "256-segment path returned bytes with SegCount {:?}", r.err().map(|b| b[1]));
}
#[test]
fn c18_package_256_elements_refused() {
    let one = 1u8;
    let kids: Vec<&dyn Aml> = (0..256).map(|_| &one as &dyn Aml).collect();
    let r = refuses(|| ser(&Package::new(kids)));
    assert!(r.is_ok(), "256-element package returned NumElements {:?}", r.err().map(|b| b[3]));
}
#[test]
fn c18_package_builder_256_elements_refused() {
    let mut pb = PackageBuilder::new();
    for _ in 0..256 {
        pb.add_element(&1u8);
    }
    let r = refuses(|| ser(&pb));
    assert!(r.is_ok(), "256-element PackageBuilder returned bytes");
}
#[test]
fn c18_method_8_args_refused() {
    let r = refuses(|| ser(&Method::new("MTH0".into(), 8, false, vec![])));
    assert!(r.is_ok(), "Method with 8 arguments returned flags {:?}", r.err());
}
#[test]
fn c18_address_space_overflowing_range_refused() {
    let r = refuses(|| ser(&AddressSpace::<u16>::new_io(0, 0xffff, None)));
    assert!(r.is_ok(), "u16 range 0..=0xffff (size 0x10000) returned bytes {:02x?}", r.err());
    let r = refuses(|| ser(&AddressSpace::<u64>::new_memory(AddressSpaceCacheable::NotCacheable, true, 0, u64::MAX, None)));
    assert!(r.is_ok(), "u64 range 0..=MAX returned bytes");
    let r = refuses(|| ser(&AddressSpace::<u32>::new_memory(AddressSpaceCacheable::NotCacheable, true, 5, 4, None)));
    assert!(r.is_ok(), "min > max returned bytes");
}
#[test]
fn c18_pkg_length_2_pow_28_refused() {
    // content of 2^28 bytes: the inclusive PkgLength (2^28 + 4) does not fit in 28 bits
    let data = vec![0u8; (1usize << 28) - 4];
    let b = BufferData::new(data);
    let r = refuses(|| ser(&b));
    match r {
        Ok(()) => {}
        Err(bytes) => {
            let (len, w) = pkg_decode(&bytes[1..]);
            panic!("object of {} bytes returned with a {}-byte PkgLength that decodes to {}", bytes.len() - 1, w, len);
        }
    }
}

// ---------------------------------------------------------------------------------------
// table helpers
fn le32_at(b: &[u8], o: usize) -> u32 { u32::from_le_bytes([b[o], b[o + 1], b[o + 2], b[o + 3]]) }
fn le16_at(b: &[u8], o: usize) -> u16 { u16::from_le_bytes([b[o], b[o + 1]]) }
fn bsum(b: &[u8]) -> u8 { b.iter().fold(0u8, |a, x| a.wrapping_add(*x)) }
/// C01 + C02 oracle for a table image
fn check_table(name: &str, b: &[u8]) {
    assert_eq!(bsum(b), 0, "{}: image does not sum to 0 (sum {})", name, bsum(b));
    assert_eq!(le32_at(b, 4) as usize, b.len(), "{}: Length field {} but {} bytes emitted", name, le32_at(b, 4), b.len());
}
/// C03 oracle: walk entries with a 1-byte type and 1-byte length (MADT/SRAT/PPTT style)
fn walk_tl8(name: &str, b: &[u8], first: usize, expect_types: &[u8]) {
    let mut o = first;
    let mut seen = Vec::new();
    while o < b.len() {
        assert!(o + 2 <= b.len(), "{}: truncated entry header at {}", name, o);
        let l = b[o + 1] as usize;
        assert!(l >= 2 && o + l <= b.len(), "{}: entry at {} (type {}, length {}) runs past the end of the image ({})", name, o, b[o], l, b.len());
        seen.push(b[o]);
        o += l;
    }
    assert_eq!(o, b.len(), "{}: walk did not land on the end", name);
    assert_eq!(seen, expect_types, "{}: entry types", name);
}

#[test]
fn c03_srat_rintc_affinity_is_self_describing() {
    use acpi_tables::srat::*;
    let mut t = SRAT::new(*b"FOOBAR", *b"DECAFCOF", 1);
    t.add_rintc_affinity(RintcAffinity::new([1, 2, 3, 4], 7).enabled());
    t.add_memory_affinity(MemoryAffinity::new(1, 0x1000, 0x2000).enabled());
    let b = ser(&t);
    check_table("SRAT", &b);
    walk_tl8("SRAT", &b, 48, &[7, 1]);
}

// ---- SLIT (C12 / C01 / C18)
fn slit_cell(b: &[u8], n: usize, i: usize, j: usize) -> u8 { b[44 + i + n * j] }
#[test]
fn c12_slit_diagonal_and_mirrored_assignments() {
    use acpi_tables::slit::*;
    for n in 1..=4usize {
        let mut t = SLIT::new(*b"FOOBAR", *b"DECAFCOF", 1, n as u32);
        let mut model = vec![10u8; n * n];
        check_table("SLIT(new)", &ser(&t));
        let ops: Vec<(usize, usize, u8)> = (0..n).flat_map(|a| (0..n).map(move |b| (a, b, (20 + 7 * a + 3 * b) as u8))).collect();
        for (a, b, v) in ops.iter().chain(ops.iter().rev()) {
            t.set_distance(*a, *b, *v);
            model[a + n * b] = *v;
            model[b + n * a] = *v;
            let img = ser(&t);
            check_table(&format!("SLIT n={} after set_distance({},{},{})", n, a, b, v), &img);
            assert_eq!(&img[44..], &model[..], "SLIT n={} matrix after set_distance({},{},{})", n, a, b, v);
            assert_eq!(u64::from_le_bytes(img[36..44].try_into().unwrap()), n as u64);
        }
    }
}
#[test]
fn c18_slit_oversize_locality_count_refused() {
    use acpi_tables::slit::*;
    let r = refuses(|| ser(&SLIT::new(*b"FOOBAR", *b"DECAFCOF", 1, 65536)));
    if let Err(b) = r {
        panic!("SLIT::new(65536 localities) returned a {}-byte image declaring {} localities and Length {}", b.len(), u64::from_le_bytes(b[36..44].try_into().unwrap()), le32_at(&b, 4));
    }
}

// ---- RHCT (C18 / C03 / C05)
#[test]
fn c18_rhct_oversize_nodes_refused() {
    use acpi_tables::rhct::*;
    // ISA string whose node length (8 + n + 1 + pad) exceeds the 16-bit length field
    let s: &'static str = Box::leak("x".repeat(65530).into_boxed_str());
    let r = refuses(|| ser(&IsaStringNode::new(s)));
    if let Err(b) = r {
        panic!("ISA string node of {} bytes returned with length field {}", b.len(), le16_at(&b, 2));
    }
    // hart info node with too many offsets for its 16-bit length field
    let mut t = RHCT::new(*b"FOOBAR", *b"DECAFCOF", 1, 1000);
    let isa = t.add_isa_string("rv64");
    let cmo = t.add_cmo(CmoNode::new(6, 6, 6));
    let mut hi = HartInfoNode::new(0, &isa);
    for _ in 0..16382 {
        hi = hi.with_cmo(&cmo);
    }
    let r = refuses(|| ser(&hi));
    if let Err(b) = r {
        panic!("hart info node of {} bytes returned with length field {}", b.len(), le16_at(&b, 2));
    }
}

// ---- RIMT / VIOT / HEST: count field crossing a byte boundary (C01)
#[test]
fn c01_rimt_checksum_after_256_devices() {
    use acpi_tables::rimt::*;
    let mut t = RIMT::new(*b"FOOBAR", *b"DECAFCOF", 1);
    check_table("RIMT(new)", &ser(&t));
    for i in 0..260u32 {
        t.add_platform(Platform::new(i as u16, "ab".to_string(), None));
        let b = ser(&t);
        check_table(&format!("RIMT after {} adds", i + 1), &b);
        assert_eq!(le32_at(&b, 36), i + 1, "device count");
    }
}
#[test]
fn c18_rimt_oversize_devices_refused() {
    use acpi_tables::rimt::*;
    let wires: Vec<InterruptWire> = (0..8190).map(|i| InterruptWire::new(i, true, true, 0)).collect();
    let r = refuses(|| ser(&Iommu::new(1, None, None, None, Some(wires))));
    if let Err(b) = r {
        panic!("IOMMU device of {} bytes returned with length field {}", b.len(), le16_at(&b, 2));
    }
    let r = refuses(|| ser(&Platform::new(1, "n".repeat(65536), None)));
    if let Err(b) = r {
        panic!("platform device of {} bytes returned with length field {}", b.len(), le16_at(&b, 2));
    }
}

#[test]
fn c01_viot_checksum_after_256_nodes() {
    use acpi_tables::viot::*;
    let mut t = VIOT::new(*b"FOOBAR", *b"DECAFCOF", 1);
    check_table("VIOT(new)", &ser(&t));
    for i in 0..260u32 {
        t.add_virtio_mmio_iommu(VirtIoMmioIommu::new(0x1000 * i as u64));
        let b = ser(&t);
        check_table(&format!("VIOT after {} adds", i + 1), &b);
        assert_eq!(le16_at(&b, 36) as u32, i + 1, "node count");
    }
}
#[test]
fn c18_viot_offsets_beyond_16_bits_refused() {
    use acpi_tables::viot::*;
    // 48 + 4096 * 16 = 65584 > 65535: node offsets (and handles) are 16-bit
    let r = refuses(|| {
        let mut t = VIOT::new(*b"FOOBAR", *b"DECAFCOF", 1);
        for i in 0..4096u64 {
            t.add_virtio_mmio_iommu(VirtIoMmioIommu::new(i));
        }
        let h = t.add_virtio_mmio_iommu(VirtIoMmioIommu::new(0xabcd));
        t.add_mmio_endpoint(MmioEndpoint::new(1, 2, &h));
        ser(&t)
    });
    if let Err(b) = r {
        let n = le16_at(&b, 36);
        let out = le16_at(&b, b.len() - 24 + 16);
        panic!("VIOT of {} bytes returned: node count field {}, last endpoint's output node offset {} (true offset {})", b.len(), n, out, 48 + 4096 * 16);
    }
}

// ---- PPTT
#[test]
fn c01_pptt_empty_table_checksum() {
    use acpi_tables::pptt::*;
    let t = PPTT::new(*b"FOOBAR", *b"DECAFCOF", 1);
    check_table("PPTT(new)", &ser(&t));
}
#[test]
fn c18_pptt_oversize_processor_node_refused() {
    use acpi_tables::pptt::*;
    let mut t = PPTT::new(*b"FOOBAR", *b"DECAFCOF", 1);
    let c = t.add_cache(CacheNodeBuilder::default().size(1).to_node());
    let mut n = ProcessorNode::new(None, 1);
    for _ in 0..59 {
        n = n.add_cache(&c);
    }
    // 20 + 4 * 59 = 256 does not fit the one-byte length field
    let r = refuses(|| ser(&n));
    if let Err(b) = r {
        panic!("processor node of {} bytes returned with length field {}", b.len(), b[1]);
    }
}

// ---- HMAT (C12 / C18)
#[test]
fn c12_hmat_non_square_matrix_row_major() {
    use acpi_tables::hmat::*;
    for (ni, nt) in [(1usize, 3usize), (3, 1), (2, 3), (3, 2), (2, 2)] {
        let mut s = SystemLocality::new(LocalityType::Memory, DataType::AccessLatency, MinTransferSize::SizeByteAligned, 100, ni, nt);
        let mut model = vec![0xffffu16; ni * nt];
        for i in 0..ni {
            for j in 0..nt {
                let v = (1 + i * 16 + j) as u16;
                s.set_entry_value(i, j, v);
                model[i * nt + j] = v;
                let b = ser(&s);
                assert_eq!(le32_at(&b, 4) as usize, b.len(), "structure length");
                let base = 32 + 4 * ni + 4 * nt;
                let got: Vec<u16> = (0..ni * nt).map(|k| le16_at(&b, base + 2 * k)).collect();
                assert_eq!(got, model, "HMAT {}x{} after set_entry_value({}, {}, {}): row-major matrix (stride = number of targets)", ni, nt, i, j, v);
            }
        }
    }
}
#[test]
fn c18_hmat_too_many_smbios_handles_refused() {
    use acpi_tables::hmat::*;
    let mut c = MemorySideCache::new(1, 4096, CacheLevel::One, CacheLevel::One, Associativity::DirectMapped, WritePolicy::Writeback, 64);
    for i in 0..65536u32 {
        c.add_smbios_handle(i as u16);
    }
    let r = refuses(|| ser(&c));
    if let Err(b) = r {
        panic!("memory side cache with 65536 SMBIOS handles returned: handle count field {}, structure length {}", le16_at(&b, 30), le32_at(&b, 4));
    }
}

// ---- CEDT
/// C03 oracle: walk records with a 1-byte type, 1 reserved byte and a 2-byte length (CEDT style)
fn walk_cedt(name: &str, b: &[u8], expect_types: &[u8]) {
    let mut o = 36;
    let mut seen = Vec::new();
    while o < b.len() {
        assert!(o + 4 <= b.len(), "{}: truncated record header at {}", name, o);
        let l = le16_at(b, o + 2) as usize;
        assert!(l >= 4 && o + l <= b.len(), "{}: record at {} (type {}, length {}) runs past the end of the image ({})", name, o, b[o], l, b.len());
        seen.push(b[o]);
        o += l;
    }
    assert_eq!(o, b.len(), "{}: walk did not land on the end", name);
    assert_eq!(seen, expect_types, "{}: record types", name);
}
#[test]
fn c03_cedt_records_are_self_describing() {
    use acpi_tables::cedt::*;
    let mut t = CEDT::new(*b"FOOBAR", *b"DECAFCOF", 1);
    t.add_host_bridge(CxlHostBridge::new(7, CxlVersion::Cxl2, 0x1000));
    let b = ser(&t);
    check_table("CEDT+CHBS", &b);
    walk_cedt("CEDT+CHBS", &b, &[0]);
    // CHBS (CXL 3.0 table 9-21): type, reserved, length word 32, uid, version, reserved dword, base, length
    assert_eq!(b.len(), 36 + 32);
    assert_eq!(le32_at(&b, 36 + 4), 7);
    assert_eq!(le32_at(&b, 36 + 8), 1);
    assert_eq!(u64::from_le_bytes(b[36 + 16..36 + 24].try_into().unwrap()), 0x1000);
    assert_eq!(u64::from_le_bytes(b[36 + 24..36 + 32].try_into().unwrap()), 0x1_0000);
    let mut t = CEDT::new(*b"FOOBAR", *b"DECAFCOF", 1);
    t.add_port_association(PortAssociation::new(1, 2, 3, 4, ProtocolType::CxlMem, 0x2000));
    t.add_host_bridge(CxlHostBridge::new(7, CxlVersion::Cxl1_1, 0x1000));
    let b = ser(&t);
    check_table("CEDT+RDPAS+CHBS", &b);
    walk_cedt("CEDT+RDPAS+CHBS", &b, &[3, 0]);
}
#[test]
fn c11_cedt_window_restriction_bits_are_distinct() {
    use acpi_tables::cedt::*;
    let mk = || CxlFixedMemory::new(0, 0x1000_0000, InterleaveArithmetic::Modulo, InterleaveGranularity::Granularity256b, InterleaveWays::Ways1, 0);
    let r = |mut f: CxlFixedMemory| { f.add_target(*b"CPU0"); le16_at(&ser(&f), 0x20) };
    assert_eq!(r(mk()), 0);
    assert_eq!(r(mk().cxl_type_2_memory()), 1 << 0, "CXL type 2 memory is restriction bit 0");
    assert_eq!(r(mk().cxl_type_3_memory()), 1 << 1, "CXL type 3 memory is restriction bit 1");
    assert_eq!(r(mk().volatile()), 1 << 2);
    assert_eq!(r(mk().persistent()), 1 << 3);
    assert_eq!(r(mk().fixed_configuration()), 1 << 4);
    assert_eq!(r(mk().cxl_type_3_memory().volatile().cxl_type_3_memory()), (1 << 1) | (1 << 2));
}
#[test]
fn c18_cedt_too_many_xor_maps_refused() {
    use acpi_tables::cedt::*;
    let mut x = XorInterleaveMath::new(InterleaveGranularity::Granularity256b);
    for i in 0..256u64 {
        x.add_xormap(i);
    }
    let r = refuses(|| ser(&x));
    if let Err(b) = r {
        panic!("CXIMS with 256 bitmaps returned: bitmap count field {}, record length {}", b[7], le16_at(&b, 2));
    }
}

// ---- MADT
#[test]
fn c11_madt_gic_msi_spi_select_flag_gates_the_values() {
    use acpi_tables::madt::*;
    // ACPI 6.5 table 5.47: flags bit 0 "SPI Count/Base Select": 1 = the SPI Count and Base fields of
    // this structure are to be used, 0 = they are ignored (hardware MSI_TYPER is used)
    let unset = ser(&GicMsi::new());
    assert_eq!(le32_at(&unset, 16) & 1, 0, "no SPI values supplied -> select flag must be clear");
    let set = ser(&GicMsi::new().spi_count_and_base(8, 64));
    assert_eq!(le16_at(&set, 20), 8);
    assert_eq!(le16_at(&set, 22), 64);
    assert_eq!(le32_at(&set, 16) & 1, 1, "SPI values supplied -> select flag must be set");
}

// ---- HEST
#[test]
fn c01_hest_checksum_after_256_sources() {
    use acpi_tables::hest::*;
    let mut t = HEST::new(*b"FOOBAR", *b"DECAFCOF", 1);
    check_table("HEST(new)", &ser(&t));
    for i in 0..260u32 {
        t.add_structure(PcieAerDevice::new_global().num_records(i));
        let b = ser(&t);
        check_table(&format!("HEST after {} adds", i + 1), &b);
        assert_eq!(le32_at(&b, 36), i + 1, "error source count");
    }
}

// ---- fixed tables
#[test]
fn c02_spcr_length_and_namespace_offset() {
    use acpi_tables::spcr::*;
    let b = ser(&SPCR::sbi(*b"FOOBAR", *b"DECAFCOF", 1));
    check_table("SPCR", &b);
    // SPCR revision 4: NamespaceStringLength at 84, NamespaceStringOffset at 86 (from the table start)
    let nlen = le16_at(&b, 84) as usize;
    let noff = le16_at(&b, 86) as usize;
    assert_eq!(noff, 88, "NamespaceStringOffset is relative to the start of the table");
    assert_eq!(noff + nlen, b.len(), "namespace string ends the table");
    assert_eq!(&b[noff..], &[b'.', 0]);
}
#[test]
fn c02_rqsc_empty_table_length() {
    use acpi_tables::rqsc::*;
    let b = ser(&RQSC::new(*b"FOOBAR", *b"DECAFCOF", 1));
    check_table("RQSC(new)", &b);
    assert_eq!(le32_at(&b, 36), 0, "controller count");
}
#[test]
fn c01_tcpa_server_checksum_without_builder_calls() {
    use acpi_tables::tpm2::*;
    let b = ser(&TpmServer1_2::new(*b"FOOBAR", *b"DECAFCOF", 1));
    check_table("TCPA server (new)", &b);
    assert_eq!(le16_at(&b, 36), 1, "platform class = server");
}
